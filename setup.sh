#!/bin/bash
# Builds /verif/.venv offline: python 3.12 overlay on /venv (numpy, scipy, astropy, pydl->/repo) + z3-solver, sympy, jsonschema.
set -e
cd "$(dirname "$0")"
if [ -x .venv/bin/python ] && .venv/bin/python -c "import z3, numpy, sympy, jsonschema" 2>/dev/null; then
  echo "venv ok"; exit 0
fi
rm -rf .venv
/venv/bin/python -m venv --without-pip .venv
SP=$(.venv/bin/python -c "import sysconfig; print(sysconfig.get_paths()['purelib'])")
echo "import site; site.addsitedir('/venv/lib/python3.12/site-packages')" > "$SP/overlay.pth"
PIP_NO_INDEX=1 /venv/bin/python -m pip --python .venv/bin/python install --no-index --find-links /opt/veriftools/wheels z3-solver sympy mpmath jsonschema >/dev/null
.venv/bin/python -c "import z3, numpy, sympy, jsonschema, pydl; print('venv built', z3.get_version_string(), numpy.__version__)"
