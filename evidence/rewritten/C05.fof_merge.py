# pydl.pydlutils.spheregroup:chunks.friendsoffriends -- rewritten by pyvc/amode.py from the current /repo source; loops cut: []
def friendsoffriends(self, ra, dec, linkSep):
    """Friends-of-friends using chunked data.
        """
    nPoints = ra.size
    inGroup = np.zeros(nPoints, dtype='i4') - 1
    mapGroups = np.zeros(9 * nPoints, dtype='i4') - 1
    nMapGroups = 0
    for i in range(self.nDec):
        for j in range(self.nRa[i]):
            if len(self.chunkList[i][j]) > 0:
                chunkGroup = self.chunkfriendsoffriends(ra, dec, self.chunkList[i][j], linkSep)
                for k in range(chunkGroup.nGroups):
                    minEarly = 9 * nPoints
                    l = chunkGroup.firstGroup[k]
                    while l != -1:
                        if inGroup[self.chunkList[i][j][l]] != -1:
                            checkEarly = inGroup[self.chunkList[i][j][l]]
                            while mapGroups[checkEarly] != checkEarly:
                                checkEarly = mapGroups[checkEarly]
                            minEarly = min(minEarly, checkEarly)
                        else:
                            inGroup[self.chunkList[i][j][l]] = nMapGroups
                        l = chunkGroup.nextGroup[l]
                    if minEarly == 9 * nPoints:
                        mapGroups[nMapGroups] = nMapGroups
                    else:
                        mapGroups[nMapGroups] = minEarly
                        l = chunkGroup.firstGroup[k]
                        while l != -1:
                            checkEarly = inGroup[self.chunkList[i][j][l]]
                            while mapGroups[checkEarly] != checkEarly:
                                tmpEarly = mapGroups[checkEarly]
                                mapGroups[checkEarly] = minEarly
                                checkEarly = tmpEarly
                            mapGroups[checkEarly] = minEarly
                            l = chunkGroup.nextGroup[l]
                    nMapGroups += 1
    nGroups = 0
    for i in range(nMapGroups):
        if mapGroups[i] != -1:
            if mapGroups[i] == i:
                mapGroups[i] = nGroups
                nGroups += 1
            else:
                mapGroups[i] = mapGroups[mapGroups[i]]
        else:
            raise PydlutilsException('MapGroups[{0:d}]={1:d} in chunks.friendsoffriends().'.format(i, mapGroups[i]))
    for i in range(nPoints):
        inGroup[i] = mapGroups[inGroup[i]]
    firstGroup = np.zeros(nPoints, dtype='i4') - 1
    nextGroup = np.zeros(nPoints, dtype='i4') - 1
    multGroup = np.zeros(nPoints, dtype='i4')
    for i in range(nPoints - 1, -1, -1):
        nextGroup[i] = firstGroup[inGroup[i]]
        firstGroup[inGroup[i]] = i
    for i in range(nGroups):
        j = firstGroup[i]
        while j != -1:
            multGroup[i] += 1
            j = nextGroup[j]
    return (inGroup, multGroup, firstGroup, nextGroup, nGroups)
