# pydl.pydlutils.mangle:is_in_window -- rewritten by pyvc/amode.py from the current /repo source; loops cut: [0]
def is_in_window(polygons, points, ncaps=0):
    """Check to see if `points` lie within a set of `polygons`.

    Parameters
    ----------
    polygons : :class:`PolygonList` or :class:`FITS_polygon`
        A set of polygons.
    points : :class:`~numpy.ndarray` or :class:`~numpy.recarray`
        If `points` is a 3-vector, or set of 3-vectors, then assume the point
        is a Cartesian unit vector.  If `point` is a 2-vector or set
        of 2-vectors, assume the point is RA, Dec.
    ncaps : :class:`int`, optional
        If set, use only the first `ncaps` caps in `polygon`.  This only
        exists to be passed to :func:`is_in_polygon`.

    Returns
    -------
    :class:`tuple`
        A tuple containing two :class:`~numpy.ndarray`.  First, a boolean
        vector giving the result for each point.  Second, an integer vector
        giving the index of the polygon that contains the point.
    """
    npoints, ncol = points.shape
    npoly = len(polygons)
    in_polygon = np.zeros((npoints,), dtype=np.int32) - 1
    curr_polygon = 0
    __pv.inv_check(0, 'init', locals())
    indx_not_in, indx_in_curr_polygon, curr_polygon = __pv.havoc(0, locals(), ['indx_not_in', 'indx_in_curr_polygon', 'curr_polygon'], ['in_polygon'])
    if __pv.choice(0):
        __pv.assume_inv(0, locals())
        if not curr_polygon < npoly:
            __pv.infeasible()
        __brk0 = False
        for __once in (0,):
            indx_not_in = (in_polygon == -1).nonzero()[0]
            if len(indx_not_in) > 0:
                indx_in_curr_polygon = is_in_polygon(polygons[curr_polygon], points[indx_not_in], ncaps=ncaps)
                if indx_in_curr_polygon.any():
                    in_polygon[indx_not_in[indx_in_curr_polygon]] = curr_polygon
            curr_polygon += 1
        if not __brk0:
            __pv.inv_check(0, 'step', locals())
            __pv.stop()
    else:
        __pv.assume_inv(0, locals())
        if curr_polygon < npoly:
            __pv.infeasible()
    return (in_polygon >= 0, in_polygon)
