# pydl.pydlutils.bspline:bspline.bsplvn -- rewritten by pyvc/amode.py from the current /repo source; loops cut: None
def bsplvn(self, x, ileft):
    """Calculates the value of all possibly nonzero B-splines at `x`
        of a certain order.

        Parameters
        ----------
        x : :class:`numpy.ndarray`
            Independent variable.
        ileft : :class:`int`
            Breakpoint segements that contain `x`.

        Returns
        -------
        :class:`numpy.ndarray`
            B-spline values.
        """
    bkpt = self.breakpoints[self.mask]
    vnikx = np.zeros((x.size, self.nord), dtype=x.dtype)
    deltap = vnikx.copy()
    deltam = vnikx.copy()
    j = 0
    vnikx[:, 0] = 1.0
    while j < self.nord - 1:
        ipj = ileft + j + 1
        deltap[:, j] = bkpt[ipj] - x
        imj = ileft - j
        deltam[:, j] = x - bkpt[imj]
        vmprev = 0.0
        for l in range(j + 1):
            vm = vnikx[:, l] / (deltap[:, l] + deltam[:, j - l])
            vnikx[:, l] = vm * deltap[:, l] + vmprev
            vmprev = vm * deltam[:, j - l]
        j += 1
        vnikx[:, j] = vmprev
    return vnikx
