# pydl.pydlutils.mangle:set_use_caps -- rewritten by pyvc/amode.py from the current /repo source; loops cut: []
def set_use_caps(polygon, index_list, add=False, tol=1e-10, allow_doubles=False, allow_neg_doubles=False):
    """Set the bits in use_caps for a polygon.

    Parameters
    ----------
    polygon : :class:`~pydl.pydlutils.mangle.ManglePolygon`
        A polygon object.
    index_list : array-like
        A list of indices of caps to set in the polygon.  Should be no
        longer, nor contain indices greater than the number of caps
        (``polygon.ncaps``).
    add : :class:`bool`, optional
        If ``True``, don't initialize the use_caps value to zero, use the
        existing value associated with `polygon` instead.
    tol : :class:`float`, optional
        Tolerance used to determine whether two caps are identical.
    allow_doubles : :class:`bool`, optional
        Normally, this routine automatically sets use_caps such that no
        two caps with use_caps set are identical.
    allow_neg_doubles : :class:`bool`, optional
        Normally, two caps that are identical except for the sign of `cm`
        would be set unused.  This inhibits that behaviour.

    Returns
    -------
    :class:`int`
        Value of use_caps.
    """
    if not add:
        polygon.use_caps = 0
    t2 = tol ** 2
    for i in index_list:
        polygon.use_caps |= 1 << i
    if not allow_doubles:
        for i in range(polygon.ncaps):
            if is_cap_used(polygon.use_caps, i):
                for j in range(i + 1, polygon.ncaps):
                    if is_cap_used(polygon.use_caps, j):
                        if np.sum((polygon.x[i, :] - polygon.x[j, :]) ** 2) < t2:
                            if np.absolute(polygon.cm[i] - polygon.cm[j]) < tol or (polygon.cm[i] + polygon.cm[j] < tol and (not allow_neg_doubles)):
                                polygon.use_caps -= 1 << j
    return polygon.use_caps
