# pydl.pydlutils.bspline:iterfit -- rewritten by pyvc/amode.py from the current /repo source; loops cut: [0]
def iterfit(xdata, ydata, invvar=None, upper=5, lower=5, x2=None, maxiter=10, groupbadpix=False, **kwargs):
    """Iteratively fit a B-spline set to data, with rejection.

    Additional keyword parameters are passed to
    :class:`~pydl.pydlutils.bspline.bspline`.

    Parameters
    ----------
    xdata : :class:`numpy.ndarray`
        Independent variable.
    ydata : :class:`numpy.ndarray`
        Dependent variable.
    invvar : :class:`numpy.ndarray`, optional
        Inverse variance of `ydata`.  If not set, it will be calculated based
        on the standard deviation.
    upper : :class:`int` or :class:`float`, optional
        Upper rejection threshold in units of sigma, defaults to 5 sigma.
    lower : :class:`int` or :class:`float`, optional
        Lower rejection threshold in units of sigma, defaults to 5 sigma.
    x2 : :class:`numpy.ndarray`, optional
        Orthogonal dependent variable for 2d fits.
    maxiter : :class:`int`, optional
        Maximum number of rejection iterations, default 10.  Set this to
        zero to disable rejection.
    groupbadpix : :class:`bool`, optional
        This keyword will be passed to :func:`~pydl.pydlutils.math.djs_reject`.

    Returns
    -------
    :class:`tuple`
        A tuple containing the fitted bspline object and an output mask.
    """
    nx = xdata.size
    if ydata.size != nx:
        raise ValueError('Dimensions of xdata and ydata do not agree.')
    if invvar is not None:
        if invvar.size != nx:
            raise ValueError('Dimensions of xdata and invvar do not agree.')
    else:
        var = ydata.var() * (float(nx) / float(nx - 1))
        if var == 0:
            var = 1.0
        invvar = np.ones(ydata.shape, dtype=ydata.dtype) / var
    if x2 is not None:
        if x2.size != nx:
            raise ValueError('Dimensions of xdata and x2 do not agree.')
    yfit = np.zeros(ydata.shape, dtype=ydata.dtype)
    if invvar.size == 1:
        outmask = True
    else:
        outmask = np.ones(invvar.shape, dtype='bool')
    xsort = xdata.argsort()
    maskwork = (outmask & (invvar > 0))[xsort]
    if 'requiren' in kwargs:
        requiren = kwargs['requiren']
        del kwargs['requiren']
    else:
        requiren = None
    if 'oldset' in kwargs:
        sset = kwargs['oldset']
        sset.mask = True
        sset.coeff = 0
    else:
        if not maskwork.any():
            raise ValueError('No valid data points.')
        if 'fullbkpt' in kwargs:
            raise ValueError('Input via fullbkpt is not supported!')
        else:
            try:
                sset = bspline(xdata[xsort[maskwork]], **kwargs)
            except TypeError:
                print(kwargs)
                raise
            if maskwork.sum() < sset.nord:
                warn('Number of good data points fewer than nord.', PydlutilsUserWarning)
                outmask[xsort] = maskwork
                return (sset, outmask)
            if x2 is not None:
                if 'xmin' in kwargs:
                    xmin = kwargs['xmin']
                else:
                    xmin = x2.min()
                if 'xmax' in kwargs:
                    xmax = kwargs['xmax']
                else:
                    xmax = x2.max()
                if xmin == xmax:
                    xmax = xmin + 1
                sset.xmin = xmin
                sset.xmax = xmax
                if 'funcname' in kwargs:
                    sset.funcname = kwargs['funcname']
    xwork = xdata[xsort]
    ywork = ydata[xsort]
    invwork = invvar[xsort]
    if x2 is not None:
        warn('2D bspline fits may be buggy and will be fully removed in the future.', DeprecationWarning)
        x2work = x2[xsort]
    else:
        x2work = None
    iiter = 0
    error = 0
    qdone = False
    __pv.inv_check(0, 'init', locals())
    goodbk, iiter, i, ct, ileft, error, yfit, inmask, maskwork, qdone = __pv.havoc(0, locals(), ['goodbk', 'iiter', 'i', 'ct', 'ileft', 'error', 'yfit', 'inmask', 'maskwork', 'qdone'], ['sset.coeff', 'sset.mask', 'outmask'])
    if __pv.choice(0):
        __pv.assume_inv(0, locals())
        if not ((error != 0 or not qdone) and iiter <= maxiter):
            __pv.infeasible()
        __brk0 = False
        for __once in (0,):
            goodbk = sset.mask.nonzero()[0]
            if maskwork.sum() <= 1 or not sset.mask.any():
                sset.coeff = 0
                iiter = maxiter + 1
            else:
                if requiren is not None:
                    i = 0
                    while xwork[i] < sset.breakpoints[goodbk[sset.nord]] and i < nx - 1:
                        i += 1
                    ct = 0
                    for ileft in range(sset.nord, sset.mask.sum() - sset.nord + 1):
                        while xwork[i] >= sset.breakpoints[goodbk[ileft]] and xwork[i] < sset.breakpoints[goodbk[ileft + 1]] and (i < nx - 1):
                            ct += invwork[i] * maskwork[i] > 0
                            i += 1
                        if ct >= requiren:
                            ct = 0
                        else:
                            sset.mask[goodbk[ileft]] = False
                error, yfit = sset.fit(xwork, ywork, invwork * maskwork, x2=x2work)
            iiter += 1
            inmask = maskwork
            if error == -2:
                outmask[xsort] = maskwork
                return (sset, outmask)
            elif error == 0:
                maskwork, qdone = djs_reject(ywork, yfit, inmask=inmask, outmask=maskwork, invvar=invwork, lower=lower, upper=upper, groupbadpix=groupbadpix)
            else:
                pass
        if not __brk0:
            __pv.inv_check(0, 'step', locals())
            __pv.stop()
    else:
        __pv.assume_inv(0, locals())
        if (error != 0 or not qdone) and iiter <= maxiter:
            __pv.infeasible()
    outmask[xsort] = maskwork
    temp = yfit
    yfit[xsort] = temp
    return (sset, outmask)
