# pydl.pydlutils.yanny:yanny.append -- rewritten by pyvc/amode.py from the current /repo source; loops cut: []
def append(self, datatable):
    """Appends data to an existing FTCL/yanny file.

        Tries as much as possible to preserve the ordering & format of the
        original file.  The datatable should adhere to the format of the
        yanny object, but it is not necessary to reproduce the 'symbols'
        dictionary.  It will not try to append data to a file that does not
        exist.  If the append is successful, the data in the object will be
        updated.

        Parameters
        ----------
        datatable : :class:`dict`
            The data to append.
        """
    if len(self.filename) == 0:
        raise ValueError('No filename is set for this object. ' + 'Use the filename attribute to set the filename!')
    if not isinstance(datatable, dict):
        raise ValueError('Data to append is not of the correct type. ' + 'Use a dict!')
    timestamp = datetime.datetime.utcnow().strftime('%Y-%m-%d %H:%M:%S UTC')
    contents = ''
    for key in datatable.keys():
        if key.upper() in self.tables() or key == 'symbols':
            continue
        contents += '{0} {1}\n'.format(key, datatable[key])
    for sym in self.tables():
        if sym.lower() in datatable:
            datasym = sym.lower()
        else:
            datasym = sym
        if datasym in datatable:
            columns = self.columns(sym)
            for k in range(len(datatable[datasym][columns[0]])):
                line = list()
                line.append(sym)
                for col in columns:
                    if self.isarray(sym, col):
                        datum = '{' + ' '.join([self.protect(x) for x in datatable[datasym][col][k]]) + '}'
                    else:
                        datum = self.protect(datatable[datasym][col][k])
                    line.append(datum)
                contents += '{0}\n'.format(' '.join(line))
    if len(contents) > 0:
        contents = '# Appended by yanny.py at {0}.\n'.format(timestamp) + contents
        if os.access(self.filename, os.W_OK):
            with open(self.filename, 'a') as f:
                f.write(contents)
            self._contents += contents
            self._parse()
        else:
            raise PydlutilsException(self.filename + ' does not exist, aborting append!')
    else:
        warnings.warn('Nothing to be appended!', PydlutilsUserWarning)
    return
