# pydl.pydlutils.yanny:yanny.write -- rewritten by pyvc/amode.py from the current /repo source; loops cut: []
def write(self, newfile=None, comments=None):
    """Write a yanny object to a file.

        This assumes that the filename used to create the object was not that
        of a pre-existing file.  If a file of the same name is detected,
        this method will *not* attempt to overwrite it, but will print a
        warning. This also assumes that the special 'symbols' key has been
        properly created.  This will not necessarily make the file very
        human-readable, especially if the data lines are long. If the name of a
        new file is given, it will write to the new file (assuming it doesn't
        exist). If the writing is successful, the data in the object will be
        updated.

        Parameters
        ----------
        newfile : :class:`str`, optional
            The name of the file to write.
        comments : :class:`str` or :class:`list` of :class:`str`, optional
            Comments that will be placed at the head of the file.  If a
            single string is passed, it will be written out verbatim, although
            a '#' character will be added if it does not already have one.
            If a list of strings is passed, comment characters will be added
            and the strings will be joined together.
        """
    if newfile is None:
        if len(self.filename) > 0:
            newfile = self.filename
        else:
            raise ValueError('No filename specified!')
    if os.access(newfile, os.F_OK):
        raise PydlutilsException('{0} exists, aborting write!'.format(newfile))
    if comments is None:
        basefile = os.path.basename(newfile)
        timestamp = datetime.datetime.utcnow().strftime('%Y-%m-%d %H:%M:%S UTC')
        comments = f'#\n# {basefile}\n#\n# Created by pydl.pydlutils.yanny.yanny\n#\n# {timestamp}\n#\n'
    elif isinstance(comments, (str,)):
        if not comments.startswith('#'):
            comments = '# ' + comments
        if not comments.endswith('\n'):
            comments += '\n'
    else:
        comments = '\n'.join(['# {0}'.format(c) for c in comments]) + '\n'
    contents = '#%yanny\n' + comments
    for key in self.pairs():
        contents += '{0} {1}\n'.format(key, self[key])
    if len(self._symbols['enum']) > 0:
        contents += '\n' + '\n\n'.join(self._symbols['enum']) + '\n'
    if len(self._symbols['struct']) > 0:
        contents += '\n' + '\n\n'.join(self._symbols['struct']) + '\n'
    contents += '\n'
    for sym in self.tables():
        columns = self.columns(sym)
        for k in range(self.size(sym)):
            line = list()
            line.append(sym)
            for col in columns:
                if self.isarray(sym, col):
                    datum = '{' + ' '.join([self.protect(x) for x in self[sym][col][k]]) + '}'
                else:
                    datum = self.protect(self[sym][col][k])
                line.append(datum)
            contents += '{0}\n'.format(' '.join(line))
    with open(newfile, 'w') as f:
        f.write(contents)
    self._contents = contents
    self.filename = newfile
    self._parse()
    return
