# pydl.pydlutils.sdss:sdss_flagval -- rewritten by pyvc/amode.py from the current /repo source; loops cut: []
def sdss_flagval(flagname, bitname):
    """Convert bitmask names into values.

    Converts human-readable bitmask names into numerical values.  The inputs
    are not case-sensitive; all inputs are converted to upper case internally.

    Parameters
    ----------
    flagname : :class:`str`
        The name of a bitmask group.
    bitname : :class:`str` or :class:`list`
        The name(s) of the specific bitmask(s) within the `flagname` group.

    Returns
    -------
    :class:`numpy.uint64`
        The value of the bitmask name(s).

    Raises
    ------
    :exc:`KeyError`
        If `flagname` or `bitname` are invalid names.

    Examples
    --------
    >>> from pydl.pydlutils.sdss import sdss_flagval
    >>> sdss_flagval('ANCILLARY_TARGET1',['BLAZGX','ELG','BRIGHTGAL']) # doctest: +REMOTE_DATA
    2310346608843161600
    """
    global maskbits
    if maskbits is None:
        maskbits = set_maskbits()
    if isinstance(bitname, (str,)):
        bitnames = [bitname.upper()]
    else:
        bitnames = [b.upper() for b in bitname]
    flagu = flagname.upper()
    flagvalue = np.uint64(0)
    for bit in bitnames:
        if flagu in maskbits:
            if bit in maskbits[flagu]:
                flagvalue += np.uint64(2) ** np.uint64(maskbits[flagu][bit])
            else:
                raise KeyError('Unknown bit label {0} for flag group {1}!'.format(bit, flagu))
        else:
            raise KeyError('Unknown flag group {0}!'.format(flagu))
    return flagvalue
