# pydl.photoop.photoobj:unwrap_objid -- rewritten by pyvc/amode.py from the current /repo source; loops cut: []
def unwrap_objid(objid):
    """Unwrap CAS-style objID into run, camcol, field, id, rerun.

    See :func:`~pydl.pydlutils.sdss.sdss_objid` for details on how the bits
    within an objID are assigned.

    Parameters
    ----------
    objid : :class:`numpy.ndarray`
        An array containing 64-bit integers or strings.  If strings are passed,
        they will be converted to integers internally.

    Returns
    -------
    :class:`numpy.recarray`
        A record array with the same length as `objid`, with the columns
        'skyversion', 'rerun', 'run', 'camcol', 'firstfield', 'frame', 'id'.

    Raises
    ------
    :exc:`ValueError`
        If the input objID has a type that can't be converted into 64-bit integer.

    Notes
    -----
    For historical reasons, the inverse of this function,
    :func:`~pydl.pydlutils.sdss.sdss_objid` is not in the same namespace as
    this function.

    'frame' is used instead of 'field' because record arrays have a method
    of the same name.

    Examples
    --------
    >>> from numpy import array
    >>> from pydl.photoop.photoobj import unwrap_objid
    >>> unwrap_objid(array([1237661382772195474]))
    rec.array([(2, 301, 3704, 3, 0, 91, 146)],
          dtype=[('skyversion', '<i4'), ('rerun', '<i4'), ('run', '<i4'), ('camcol', '<i4'), ('firstfield', '<i4'), ('frame', '<i4'), ('id', '<i4')])
    """
    try:
        np_string = np.string_
        np_unicode = np.unicode_
    except AttributeError:
        np_string = np.bytes_
        np_unicode = np.str_
    if objid.dtype.type is np_string or objid.dtype.type is np_unicode:
        tempobjid = objid.astype(np.int64)
    elif objid.dtype.type is np.int64:
        tempobjid = objid.copy()
    else:
        raise ValueError('Unrecognized type for objid!')
    unwrap = np.recarray(objid.shape, dtype=[('skyversion', 'i4'), ('rerun', 'i4'), ('run', 'i4'), ('camcol', 'i4'), ('firstfield', 'i4'), ('frame', 'i4'), ('id', 'i4')])
    unwrap.skyversion = np.bitwise_and(tempobjid >> 59, 2 ** 4 - 1)
    unwrap.rerun = np.bitwise_and(tempobjid >> 48, 2 ** 11 - 1)
    unwrap.run = np.bitwise_and(tempobjid >> 32, 2 ** 16 - 1)
    unwrap.camcol = np.bitwise_and(tempobjid >> 29, 2 ** 3 - 1)
    unwrap.firstfield = np.bitwise_and(tempobjid >> 28, 2 ** 1 - 1)
    unwrap.frame = np.bitwise_and(tempobjid >> 16, 2 ** 12 - 1)
    unwrap.id = np.bitwise_and(tempobjid, 2 ** 16 - 1)
    return unwrap
