# pydl.pydlutils.coord:radec_to_munu, munu_to_radec -- rewritten by pyvc/amode.py from the current /repo source; loops cut: None
def radec_to_munu(icrs_frame, munu):
    """Convert from equatorial coordinates to SDSS great circle coordinates.

    Parameters
    ----------
    icrs_frame : :class:`~astropy.coordinates.ICRS`
        Equatorial coordinates (RA, Dec).

    Returns
    -------
    :class:`~pydl.pydlutils.coord.SDSSMuNu`
        SDSS great circle coordinates (mu, nu).
    """
    sinra = np.sin((icrs_frame.ra - munu.node).to(u.radian).value)
    cosra = np.cos((icrs_frame.ra - munu.node).to(u.radian).value)
    sindec = np.sin(icrs_frame.dec.to(u.radian).value)
    cosdec = np.cos(icrs_frame.dec.to(u.radian).value)
    sini = np.sin(munu.incl.to(u.radian).value)
    cosi = np.cos(munu.incl.to(u.radian).value)
    x1 = cosdec * cosra
    y1 = cosdec * sinra
    z1 = sindec
    x2 = x1
    y2 = y1 * cosi + z1 * sini
    z2 = -y1 * sini + z1 * cosi
    mu = ac.Angle(np.arctan2(y2, x2), unit=u.radian) + munu.node
    nu = ac.Angle(np.arcsin(z2), unit=u.radian)
    return SDSSMuNu(mu=mu, nu=nu, stripe=munu.stripe)\ndef munu_to_radec(munu, icrs_frame):
    """Convert from SDSS great circle coordinates to equatorial coordinates.

    Parameters
    ----------
    munu : :class:`~pydl.pydlutils.coord.SDSSMuNu`
        SDSS great circle coordinates (mu, nu).

    Returns
    -------
    :class:`~astropy.coordinates.ICRS`
        Equatorial coordinates (RA, Dec).
    """
    sinnu = np.sin(munu.nu.to(u.radian).value)
    cosnu = np.cos(munu.nu.to(u.radian).value)
    sini = np.sin(munu.incl.to(u.radian).value)
    cosi = np.cos(munu.incl.to(u.radian).value)
    sinmu = np.sin((munu.mu - munu.node).to(u.radian).value)
    cosmu = np.cos((munu.mu - munu.node).to(u.radian).value)
    xx = cosmu * cosnu
    yy = sinmu * cosnu * cosi - sinnu * sini
    zz = sinmu * cosnu * sini + sinnu * cosi
    ra = ac.Angle(np.arctan2(yy, xx), unit=u.radian) + munu.node
    dec = ac.Angle(np.arcsin(zz), unit=u.radian)
    return ac.ICRS(ra=ra, dec=dec).transform_to(icrs_frame)
