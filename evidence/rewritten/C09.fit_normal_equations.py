# pydl.pydlutils.bspline:bspline.fit -- rewritten by pyvc/amode.py from the current /repo source; loops cut: []
def fit(self, xdata, ydata, invvar, x2=None):
    """Calculate a B-spline in the least-squares sense.

        Fit is based on two variables: `xdata` which is sorted and spans a large range
        where breakpoints are required `ydata` which can be described with a low order
        polynomial.

        Parameters
        ----------
        xdata : :class:`numpy.ndarray`
            Independent variable.
        ydata : :class:`numpy.ndarray`
            Dependent variable.
        invvar : :class:`numpy.ndarray`
            Inverse variance of `ydata`.
        x2 : :class:`numpy.ndarray`, optional
            Orthogonal dependent variable for 2d fits.

        Returns
        -------
        :class:`tuple`
            A tuple containing an integer error code, and the evaluation of the
            b-spline at the input values.  An error code of -2 is a failure,
            -1 indicates dropped breakpoints, 0 is success, and positive
            integers indicate ill-conditioned breakpoints.
        """
    goodbk = self.mask[self.nord:]
    nn = goodbk.sum()
    if nn < self.nord:
        yfit = np.zeros(ydata.shape, dtype='f')
        return (-2, yfit)
    nfull = nn * self.npoly
    bw = self.npoly * self.nord
    a1, lower, upper = self.action(xdata, x2=x2)
    foo = np.tile(invvar, bw).reshape(bw, invvar.size).transpose()
    a2 = a1 * foo
    alpha = np.zeros((bw, nfull + bw), dtype='d')
    beta = np.zeros((nfull + bw,), dtype='d')
    bi = np.arange(bw, dtype='i4')
    bo = np.arange(bw, dtype='i4')
    for k in range(1, bw):
        bi = np.append(bi, np.arange(bw - k, dtype='i4') + (bw + 1) * k)
        bo = np.append(bo, np.arange(bw - k, dtype='i4') + bw * k)
    for k in range(nn - self.nord + 1):
        itop = k * self.npoly
        ibottom = min(itop, nfull) + bw - 1
        ict = upper[k] - lower[k] + 1
        if ict > 0:
            work = np.dot(a1[lower[k]:upper[k] + 1, :].T, a2[lower[k]:upper[k] + 1, :])
            wb = np.dot(ydata[lower[k]:upper[k] + 1], a2[lower[k]:upper[k] + 1, :])
            alpha.T.flat[bo + itop * bw] += work.flat[bi]
            beta[itop:ibottom + 1] += wb
    min_influence = 1e-10 * invvar.sum() / nfull
    errb = cholesky_band(alpha, mininf=min_influence)
    if isinstance(errb[0], int) and errb[0] == -1:
        a = errb[1]
    else:
        yfit, foo = self.value(xdata, x2=x2, action=a1, upper=upper, lower=lower)
        return (self.maskpoints(errb[0]), yfit)
    sol = cholesky_solve(a, beta)
    if self.npoly > 1:
        self.icoeff[:, goodbk] = np.array(a[0, 0:nfull].reshape(self.npoly, nn), dtype=a.dtype)
        self.coeff[:, goodbk] = np.array(sol[0:nfull].reshape(self.npoly, nn), dtype=sol.dtype)
    else:
        self.icoeff[goodbk] = np.array(a[0, 0:nfull], dtype=a.dtype)
        self.coeff[goodbk] = np.array(sol[0:nfull], dtype=sol.dtype)
    yfit, foo = self.value(xdata, x2=x2, action=a1, upper=upper, lower=lower)
    return (0, yfit)
