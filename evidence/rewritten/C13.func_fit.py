# pydl.pydlutils.trace:func_fit -- rewritten by pyvc/amode.py from the current /repo source; loops cut: []
def func_fit(x, y, ncoeff, invvar=None, function_name='legendre', ia=None, inputans=None, inputfunc=None):
    """Fit `x`, `y` positions to a functional form.

    Parameters
    ----------
    x : array-like
        X values (independent variable).
    y : array-like
        Y values (dependent variable).
    ncoeff : :class:`int`
        Number of coefficients to fit.
    invvar : array-like, optional
        Weight values; inverse variance.
    function_name : :class:`str`, optional
        Function name, default 'legendre'.
    ia : array-like, optional
        An array of bool of length `ncoeff` specifying free (``True``) and
        fixed (``False``) parameters.
    inputans : array-like, optional
        An array of values of length `ncoeff` specifying the values of
        the fixed parameters.
    inputfunc : array-like, optional
        Multiply the function fit by these values.

    Returns
    -------
    :class:`tuple` of array-like
        Fit coefficients, length `ncoeff`; fitted values.

    Raises
    ------
    :exc:`KeyError`
        If an invalid function type is selected.
    :exc:`ValueError`
        If input dimensions do not agree.
    """
    if x.shape != y.shape:
        raise ValueError('Dimensions of X and Y do not agree!')
    if invvar is None:
        invvar = np.ones(x.shape, dtype=x.dtype)
    elif invvar.shape != x.shape:
        raise ValueError('Dimensions of X and invvar do not agree!')
    if ia is None:
        ia = np.ones((ncoeff,), dtype=bool)
    if not ia.all():
        if inputans is None:
            inputans = np.zeros((ncoeff,), dtype=x.dtype)
    igood = (invvar > 0).nonzero()[0]
    ngood = len(igood)
    res = np.zeros((ncoeff,), dtype=x.dtype)
    yfit = np.zeros(x.shape, dtype=x.dtype)
    if ngood == 0:
        pass
    elif ngood == 1:
        res[0] = y[igood[0]]
        yfit += y[igood[0]]
    else:
        ncfit = min(ngood, ncoeff)
        function_map = {'legendre': flegendre, 'flegendre': flegendre, 'chebyshev': fchebyshev, 'fchebyshev': fchebyshev, 'chebyshev_split': fchebyshev_split, 'fchebyshev_split': fchebyshev_split, 'poly': fpoly, 'fpoly': fpoly}
        try:
            legarr = function_map[function_name](x, ncfit)
        except KeyError:
            raise KeyError('Unknown function type: {0}'.format(function_name))
        if inputfunc is not None:
            if inputfunc.shape != x.shape:
                raise ValueError('Dimensions of X and inputfunc do not agree!')
            legarr *= np.tile(inputfunc, ncfit).reshape(ncfit, x.shape[0])
        yfix = np.zeros(x.shape, dtype=x.dtype)
        nonfix = ia[0:ncfit].nonzero()[0]
        nparams = len(nonfix)
        fixed = (~ia[0:ncfit]).nonzero()[0]
        if len(fixed) > 0:
            yfix = np.dot(legarr.T, inputans * (1 - ia))
            ysub = y - yfix
            finalarr = legarr[nonfix, :]
        else:
            finalarr = legarr
            ysub = y
        extra2 = finalarr * np.outer(np.ones((nparams,), dtype=x.dtype), invvar)
        alpha = np.dot(finalarr, extra2.T)
        if nparams > 1:
            beta = np.dot(ysub * invvar, finalarr.T)
            assert beta.dtype == x.dtype
            res[nonfix] = np.linalg.solve(alpha, beta)
        else:
            res[nonfix] = (ysub * invvar * finalarr).sum() / alpha
        if len(fixed) > 0:
            res[fixed] = inputans[fixed]
        yfit = np.dot(legarr.T, res[0:ncfit])
    return (res, yfit)
