# pydl.photoop.sdssio:sdssflux2ab -- rewritten by pyvc/amode.py from the current /repo source; loops cut: []
def sdssflux2ab(flux, magnitude=False, ivar=False):
    """Convert the SDSS calibrated fluxes (magnitudes) into AB fluxes
    (magnitudes).

    Parameters
    ----------
    flux : :class:`numpy.ndarray`
        Array of calibrated fluxes or SDSS magnitudes with 5 columns,
        corresponding to the 5 filters *u*, *g*, *r*, *i*, *z*.
    magnitude : :class:`bool`, optional
        If set to ``True``, then assume `flux` are SDSS magnitudes instead of
        linear flux units.
    ivar : :class:`numpy.ndarray`, optional
        If set, the input fluxes are actually inverse variances.

    Returns
    -------
    :class:`numpy.ndarray`
        Array of fluxes or magnitudes on the AB system.

    Notes
    -----
    Uses the conversions posted by D.Hogg (sdss-calib/845)::

        u(AB,2.5m) = u(2.5m) - 0.042
        g(AB,2.5m) = g(2.5m) + 0.036
        r(AB,2.5m) = r(2.5m) + 0.015
        i(AB,2.5m) = i(2.5m) + 0.013
        z(AB,2.5m) = z(2.5m) - 0.002
    """
    correction = np.array([-0.042, 0.036, 0.015, 0.013, -0.002])
    rows, cols = flux.shape
    abflux = flux.copy()
    if magnitude:
        for i in range(rows):
            abflux[i, :] += correction
    else:
        factor = 10.0 ** (-correction / 2.5)
        if ivar:
            factor = 1.0 / factor ** 2
        for i in range(rows):
            abflux[i, :] *= factor
    return abflux
