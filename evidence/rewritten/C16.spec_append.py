# pydl.pydlspec2d.spec1d:spec_append -- rewritten by pyvc/amode.py from the current /repo source; loops cut: []
def spec_append(spec1, spec2, pixshift=0):
    """Append the array spec2 to the array spec1 & return a new array.

    If the dimension of these arrays is the same, then append as [spec1,spec2].
    If not, increase the size of the smaller array & fill with zeros.

    Parameters
    ----------
    spec1, spec2 : :class:`numpy.ndarray`
        Append `spec2` to `spec1`.
    pixshift : :class:`int`, optional
        If `pixshift` is set to a positive integer, `spec2` will be padded with
        `pixshift` zeros on the left side.  If `pixshift` is set to a
        negative integer, `spec1` will be padded with ``abs(pixshift)`` zeros
        on the left side.  If not set, all zeros will be padded on the right
        side.

    Returns
    -------
    :class:`numpy.ndarray`
        A new array containing both `spec1` and `spec2`.
    """
    nrows1, npix1 = spec1.shape
    nrows2, npix2 = spec2.shape
    nrows = nrows1 + nrows2
    nadd1 = 0
    nadd2 = 0
    if pixshift != 0:
        if pixshift < 0:
            nadd1 = -pixshift
        else:
            nadd2 = pixshift
    maxpix = max(npix1 + nadd1, npix2 + nadd2)
    spec3 = np.zeros((nrows, maxpix), dtype=spec1.dtype)
    spec3[0:nrows1, nadd1:nadd1 + npix1] = spec1
    spec3[nrows1:nrows, nadd2:nadd2 + npix2] = spec2
    return spec3
