# pydl.pydlutils.mangle:set_use_caps -- rewritten by pyvc/amode.py from the current /repo source; loops cut: [0]
def set_use_caps(polygon, index_list, add=False, tol=1e-10, allow_doubles=False, allow_neg_doubles=False):
    """Set the bits in use_caps for a polygon.

    Parameters
    ----------
    polygon : :class:`~pydl.pydlutils.mangle.ManglePolygon`
        A polygon object.
    index_list : array-like
        A list of indices of caps to set in the polygon.  Should be no
        longer, nor contain indices greater than the number of caps
        (``polygon.ncaps``).
    add : :class:`bool`, optional
        If ``True``, don't initialize the use_caps value to zero, use the
        existing value associated with `polygon` instead.
    tol : :class:`float`, optional
        Tolerance used to determine whether two caps are identical.
    allow_doubles : :class:`bool`, optional
        Normally, this routine automatically sets use_caps such that no
        two caps with use_caps set are identical.
    allow_neg_doubles : :class:`bool`, optional
        Normally, two caps that are identical except for the sign of `cm`
        would be set unused.  This inhibits that behaviour.

    Returns
    -------
    :class:`int`
        Value of use_caps.
    """
    if not add:
        polygon.use_caps = 0
    t2 = tol ** 2
    __seq0 = index_list
    __lo0, __hi0 = __pv.range_bounds(0, len(__seq0))
    __ix0 = __lo0
    __pv.inv_check(0, 'init', locals())
    i, __ix0 = __pv.havoc(0, locals(), ['i', '__ix0'], ['polygon.use_caps'])
    __pv.noop()
    if __pv.choice(0):
        __pv.assume_iter(0, locals())
        __it0 = __ix0
        __brk0 = False
        for __once in (0,):
            i = __seq0[__ix0]
            polygon.use_caps |= 1 << i
        if not __brk0:
            __ix0 = __it0 + 1
            __pv.inv_check(0, 'step', locals())
            __pv.stop()
        else:
            __ix0 = __it0
    else:
        __pv.assume_exit(0, locals())
        __ix0 = __pv.exit_var(0, locals())
    if not allow_doubles:
        for i in range(polygon.ncaps):
            if is_cap_used(polygon.use_caps, i):
                for j in range(i + 1, polygon.ncaps):
                    if is_cap_used(polygon.use_caps, j):
                        if np.sum((polygon.x[i, :] - polygon.x[j, :]) ** 2) < t2:
                            if np.absolute(polygon.cm[i] - polygon.cm[j]) < tol or (polygon.cm[i] + polygon.cm[j] < tol and (not allow_neg_doubles)):
                                polygon.use_caps -= 1 << j
    return polygon.use_caps
