# pydl.pydlutils.mangle:angles_to_x -- rewritten by pyvc/amode.py from the current /repo source; loops cut: []
def angles_to_x(points, latitude=False):
    """Convert spherical angles to unit Cartesian vectors.

    Parameters
    ----------
    points : :class:`~numpy.ndarray`
        A set of angles in the form phi, theta (in degrees).
    latitude : :class:`bool`, optional
        If ``True``, assume that the angles actually represent longitude,
        latitude, or equivalently, RA, Dec.

    Returns
    -------
    :class:`~numpy.ndarray`
        The corresponding Cartesian vectors.
    """
    npoints, ncol = points.shape
    x = np.zeros((npoints, 3), dtype=points.dtype)
    phi = np.radians(points[:, 0])
    if latitude:
        theta = np.radians(90.0 - points[:, 1])
    else:
        theta = np.radians(points[:, 1])
    st = np.sin(theta)
    x[:, 0] = np.cos(phi) * st
    x[:, 1] = np.sin(phi) * st
    x[:, 2] = np.cos(theta)
    return x
