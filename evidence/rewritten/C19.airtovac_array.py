# pydl.goddard.astro:airtovac -- rewritten by pyvc/amode.py from the current /repo source; loops cut: []
def airtovac(air):
    """Convert air wavelengths to wavelengths in vacuum.

    Parameters
    ----------
    air : array-like
        Values of wavelength in air in Angstroms.
        :class:`~astropy.units.Quantity` objects with valid length
        dimensions will be internally converted to Angstrom.

    Returns
    -------
    array-like
        Values of wavelength in vacuum in Angstroms.  If a
        :class:`~astropy.units.Quantity` object was passed in, the output
        will be converted to the same units as the input.

    Notes
    -----
    * Formula from `P. E. Ciddor, Applied Optics, 35, 1566 (1996)
      <https://ui.adsabs.harvard.edu/abs/1996ApOpt..35.1566C/abstract>`_.
    * Values of wavelength below 2000 Å are not converted.
    """
    try:
        u = air.unit
    except AttributeError:
        u = None
    try:
        t = air.dtype
    except AttributeError:
        t = None
    if t is None:
        if air < 2000.0:
            return air
        vacuum = air
        a = air
        g = None
    else:
        try:
            a = air.to(Angstrom).value
        except AttributeError:
            a = air
        g = a < 2000.0
        if g.all():
            return air
        vacuum = np.zeros(air.shape, dtype=t) + a
    for k in range(2):
        sigma2 = (10000.0 / vacuum) ** 2
        fact = 1.0 + 0.05792105 / (238.0185 - sigma2) + 0.00167917 / (57.362 - sigma2)
        vacuum = a * fact
    if g is not None:
        vacuum[g] = a[g]
    if u is not None:
        vacuum = (vacuum * Angstrom).to(u)
    return vacuum
