# pydl.pydlutils.spheregroup:spherematch -- rewritten by pyvc/amode.py from the current /repo source; loops cut: []
def spherematch(ra1, dec1, ra2, dec2, matchlength, chunksize=None, maxmatch=1):
    """Match points on a sphere.

    Parameters
    ----------
    ra1, dec1, ra2, dec2 : :class:`numpy.ndarray`
        The sets of coordinates to match.  Assumed to be in decimal degrees
    matchlength : :class:`float`
        Two points closer than this separation are matched. Assumed to be in decimal degrees.
    chunksize : :class:`float`, optional
        Value to pass to chunk assignment.
    maxmatch : :class:`int`, optional
        Allow up to `maxmatch` matches per coordinate.  Default 1. If set to zero,
        All possible matches will be returned.

    Returns
    -------
    :class:`tuple`
        A tuple containing the indices into the first set of points, the
        indices into the second set of points and the match distance in
        decimal degrees.

    Notes
    -----
    If you have sets of coordinates that differ in size, call this function
    with the larger list first.  This exploits the inherent asymmetry in the
    underlying code to reduce memory use.

    .. warning:: Behavior at the poles is not well tested.
    """
    if chunksize is None:
        chunksize = max(4.0 * matchlength, 0.1)
    elif chunksize < 4.0 * matchlength:
        chunksize = 4.0 * matchlength
        warn('chunksize changed to {0:.2f}.'.format(chunksize), PydlutilsUserWarning)
    if ra1.size == 1:
        raise PydlutilsException('Change the order of the sets of coordinates!')
    chunk = chunks(ra1, dec1, chunksize)
    chunk.assign(ra2, dec2, matchlength)
    match1 = list()
    match2 = list()
    distance12 = list()
    for i in range(ra1.size):
        currra = np.fmod(ra1[i] + chunk.raOffset, 360.0)
        rachunk, decchunk = chunk.get(currra, dec1[i])
        jmax = len(chunk.chunkList[decchunk][rachunk])
        if jmax > 0:
            for j in range(jmax):
                k = chunk.chunkList[decchunk][rachunk][j]
                sep = gcirc(ra1[i], dec1[i], ra2[k], dec2[k], units=2) / 3600.0
                if sep < matchlength:
                    match1.append(i)
                    match2.append(k)
                    distance12.append(sep)
    omatch1 = np.array(match1)
    omatch2 = np.array(match2)
    odistance12 = np.array(distance12)
    s = odistance12.argsort()
    if maxmatch > 0:
        gotten1 = np.zeros(ra1.size, dtype='i4')
        gotten2 = np.zeros(ra2.size, dtype='i4')
        nmatch = 0
        for i in range(omatch1.size):
            if gotten1[omatch1[s[i]]] < maxmatch and gotten2[omatch2[s[i]]] < maxmatch:
                gotten1[omatch1[s[i]]] += 1
                gotten2[omatch2[s[i]]] += 1
                nmatch += 1
        match1 = np.zeros(nmatch, dtype='i4')
        match2 = np.zeros(nmatch, dtype='i4')
        distance12 = np.zeros(nmatch, dtype='d')
        gotten1[:] = 0
        gotten2[:] = 0
        nmatch = 0
        for i in range(omatch1.size):
            if gotten1[omatch1[s[i]]] < maxmatch and gotten2[omatch2[s[i]]] < maxmatch:
                gotten1[omatch1[s[i]]] += 1
                gotten2[omatch2[s[i]]] += 1
                match1[nmatch] = omatch1[s[i]]
                match2[nmatch] = omatch2[s[i]]
                distance12[nmatch] = odistance12[s[i]]
                nmatch += 1
    else:
        match1 = omatch1[s]
        match2 = omatch2[s]
        distance12 = odistance12[s]
    return (match1, match2, distance12)
