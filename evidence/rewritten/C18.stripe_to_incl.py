# pydl.pydlutils.coord:stripe_to_incl -- rewritten by pyvc/amode.py from the current /repo source; loops cut: []
def stripe_to_incl(stripe):
    """Convert from SDSS stripe number to an inclination relative to the
    equator.

    Parameters
    ----------
    stripe : :class:`int` or :class:`numpy.ndarray`
        SDSS Stripe number.

    Returns
    -------
    :class:`float` or :class:`numpy.ndarray`
        Inclination of the stripe relative to the equator (Dec = 0).
    """
    dec_center = 32.5
    eta_center = stripe_to_eta(stripe)
    incl = eta_center + dec_center
    return incl
