# pydl.pydlutils.mangle:is_in_polygon -- rewritten by pyvc/amode.py from the current /repo source; loops cut: [1]
def is_in_polygon(polygon, points, ncaps=0):
    """Are the points in a given (single) polygon?

    Parameters
    ----------
    polygon : :class:`~pydl.pydlutils.mangle.ManglePolygon`
        A polygon object.
    points : :class:`~numpy.ndarray` or :class:`~numpy.recarray`
        If `points` is a 3-vector, or set of 3-vectors, then assume the point
        is a Cartesian unit vector.  If `point` is a 2-vector or set
        of 2-vectors, assume the point is RA, Dec.
    ncaps : :class:`int`, optional
        If set, use only the first `ncaps` caps in `polygon`.

    Returns
    -------
    :class:`~numpy.ndarray`
        A boolean vector giving the result for each point.
    """
    npoints, ncol = points.shape
    p = dict()
    pmap = {'ncaps': 'NCAPS', 'use_caps': 'USE_CAPS', 'x': 'XCAPS', 'cm': 'CMCAPS'}
    for key in pmap:
        try:
            p[key] = getattr(polygon, key)
        except AttributeError:
            p[key] = polygon[pmap[key]]
    p['x'] = np.atleast_2d(p['x'])
    p['cm'] = np.atleast_1d(p['cm'])
    usencaps = p['ncaps']
    if ncaps > 0:
        usencaps = min(ncaps, p['ncaps'])
    in_polygon = np.ones((npoints,), dtype=bool)
    __lo1, __hi1 = __pv.range_bounds(1, usencaps)
    icap = __lo1
    __pv.inv_check(1, 'init', locals())
    in_polygon, icap = __pv.havoc(1, locals(), ['in_polygon', 'icap'], [])
    __pv.noop()
    if __pv.choice(1):
        __pv.assume_iter(1, locals())
        __it1 = icap
        __brk1 = False
        for __once in (0,):
            if is_cap_used(p['use_caps'], icap):
                in_polygon &= is_in_cap(p['x'][icap, :], p['cm'][icap], points)
        if not __brk1:
            icap = __it1 + 1
            __pv.inv_check(1, 'step', locals())
            __pv.stop()
        else:
            icap = __it1
    else:
        __pv.assume_exit(1, locals())
        icap = __pv.exit_var(1, locals())
    return in_polygon
