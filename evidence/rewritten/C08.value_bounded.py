# pydl.pydlutils.bspline:bspline.value -- rewritten by pyvc/amode.py from the current /repo source; loops cut: []
def value(self, x, x2=None, action=None, lower=None, upper=None):
    """Evaluate a B-spline at specified values.

        Parameters
        ----------
        x : :class:`numpy.ndarray`
            Independent variable.
        x2 : :class:`numpy.ndarray`, optional
            Orthogonal dependent variable for 2d fits.
        action : :class:`numpy.ndarray`, optional
            Action matrix to use.  If not supplied it is calculated.
        lower : :class:`numpy.ndarray`, optional
            If the action parameter is supplied, this parameter must also
            be supplied.
        upper : :class:`numpy.ndarray`, optional
            If the action parameter is supplied, this parameter must also
            be supplied.

        Returns
        -------
        :class:`tuple`
            A tuple containing the results of the bspline evaluation and a
            mask indicating where the evaluation was good.
        """
    xsort = x.argsort()
    xwork = x[xsort]
    if x2 is not None:
        x2work = x2[xsort]
    else:
        x2work = None
    if action is not None:
        if lower is None or upper is None:
            raise ValueError('Must specify lower and upper if action is set.')
    else:
        action, lower, upper = self.action(xwork, x2=x2work)
    yfit = np.zeros(x.shape, dtype=x.dtype)
    bw = self.npoly * self.nord
    spot = np.arange(bw, dtype='i4')
    goodbk = self.mask.nonzero()[0]
    coeffbk = self.mask[self.nord:].nonzero()[0]
    n = self.mask.sum() - self.nord
    if self.npoly > 1:
        goodcoeff = self.coeff[:, coeffbk]
    else:
        goodcoeff = self.coeff[coeffbk]
    for i in range(n - self.nord + 1):
        ict = upper[i] - lower[i] + 1
        if ict > 0:
            yfit[lower[i]:upper[i] + 1] = np.dot(action[lower[i]:upper[i] + 1, :], goodcoeff[i * self.npoly + spot])
    yy = yfit.copy()
    yy[xsort] = yfit
    mask = np.ones(x.shape, dtype='bool')
    gb = self.breakpoints[goodbk]
    outside = (x < gb[self.nord - 1]) | (x > gb[n])
    if outside.any():
        mask[outside] = False
    hmm = (np.diff(goodbk) > 2).nonzero()[0]
    for jj in range(hmm.size):
        inside = (x >= self.breakpoints[goodbk[hmm[jj]]]) & (x <= self.breakpoints[goodbk[hmm[jj] + 1] - 1])
        if inside.any():
            mask[inside] = False
    return (yy, mask)
