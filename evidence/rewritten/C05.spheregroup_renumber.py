# pydl.pydlutils.spheregroup:spheregroup -- rewritten by pyvc/amode.py from the current /repo source; loops cut: None
def spheregroup(ra, dec, linklength, chunksize=None):
    """Perform friends-of-friends grouping given ra/dec coordinates.

    Parameters
    ----------
    ra, dec : :class:`numpy.ndarray`
        Arrays of coordinates to group in decimal degrees.
    linklength : :class:`float`
        Linking length for the groups in decimal degrees.
    chunksize : :class:`float`, optional
        Break up the sphere into chunks of this size in decimal degrees.

    Returns
    -------
    :class:`tuple`
        A tuple containing the group number of each object, the multiplicity
        of each group, the first member of each group, and the next
        member of the group for each object.

    Raises
    ------
    :exc:`PydlutilsException`
        If the array of coordinates only contains one point.

    Notes
    -----
    It is important that `chunksize` >= 4 * `linklength`.  This is enforced.

    .. warning:: Behavior at the poles is not well tested.
    """
    npoints = ra.size
    if npoints == 1:
        raise PydlutilsException('Cannot group only one point!')
    if chunksize is not None:
        if chunksize < 4.0 * linklength:
            chunksize = 4.0 * linklength
            warn('chunksize changed to {0:.2f}.'.format(chunksize), PydlutilsUserWarning)
    else:
        chunksize = max(4.0 * linklength, 0.1)
    chunk = chunks(ra, dec, chunksize)
    chunk.assign(ra, dec, linklength)
    ingroup, multgroup, firstgroup, nextgroup, ngroups = chunk.friendsoffriends(ra, dec, linklength)
    renumbered = np.zeros(npoints, dtype='bool')
    iclump = 0
    for i in range(npoints):
        if not renumbered[i]:
            j = firstgroup[ingroup[i]]
            while j != -1:
                ingroup[j] = iclump
                renumbered[j] = True
                j = nextgroup[j]
            iclump += 1
    firstgroup[:] = -1
    for i in range(npoints - 1, -1, -1):
        nextgroup[i] = firstgroup[ingroup[i]]
        firstgroup[ingroup[i]] = i
    multgroup[:] = 0
    for i in range(ngroups):
        j = firstgroup[i]
        while j != -1:
            multgroup[i] += 1
            j = nextgroup[j]
    return (ingroup, multgroup, firstgroup, nextgroup)
