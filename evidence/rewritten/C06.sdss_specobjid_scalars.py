# pydl.pydlutils.sdss:sdss_specobjid -- rewritten by pyvc/amode.py from the current /repo source; loops cut: []
def sdss_specobjid(plate, fiber, mjd, run2d, line=None, index=None):
    """Convert SDSS spectrum identifiers into CAS-style specObjID.

    Bits are assigned in specObjID thus:

    ===== ========== =============================================================
    Bits  Name       Comment
    ===== ========== =============================================================
    50-63 Plate ID   14 bits
    38-49 Fiber ID   12 bits
    24-37 MJD        Date plate was observed minus 50000 (14 bits)
    10-23 run2d      Spectroscopic reduction version
    0-9   line/index 0 for use in SpecObj files see below for other uses (10 bits)
    ===== ========== =============================================================

    Parameters
    ----------
    plate, fiber, mjd : :class:`int` or array of int
        Plate, fiber ID, and MJD for a spectrum.  If arrays are
        passed, all must have the same length.  The MJD value must be
        greater than 50000.
    run2d : :class:`int`, :class:`str` or array of int or str
        The run2d value must be an integer or a string of the form 'vN_M_P'.
        If an array is passed, it must have the same length as the other
        inputs listed above.  If the string form is used, the values are
        restricted to :math:`5 \\le N \\le 6`, :math:`0 \\le M \\le 99`,
        :math:`0 \\le P \\le 99`.
    line : :class:`int`, optional
        A line index, only used for defining specObjID for SpecLine files.
        `line` and `index` cannot both be non-zero.
    index : :class:`int`, optional
        An index measure, only used for defining specObjID for SpecLineIndex
        files. `line` and `index` cannot both be non-zero.

    Returns
    -------
    :class:`numpy.ndarray` of :class:`numpy.uint64`
        The specObjIDs of the objects.

    Raises
    ------
    :exc:`ValueError`
        If the sizes of the arrays don't match or if the array values are
        out of bounds.

    Notes
    -----
    * On 32-bit systems, makes sure to explicitly declare all inputs as
      64-bit integers.
    * This function defines the SDSS-III/IV version of specObjID, used for
      SDSS DR8 and subsequent data releases.  It is not compatible with
      SDSS DR7 or earlier.
    * If the string form of `run2d` is used, the bits are assigned by
      the formula :math:`(N - 5) \\times 10000 + M \\times 100 + P`.

    Examples
    --------
    >>> from pydl.pydlutils.sdss import sdss_specobjid
    >>> print(sdss_specobjid(4055,408,55359,'v5_7_0'))
    [4565636362342690816]
    """
    if line is not None and index is not None:
        raise ValueError('line and index inputs cannot both be non-zero!')
    if isinstance(plate, int):
        plate = np.array([plate])
    if isinstance(fiber, int):
        fiber = np.array([fiber])
    if isinstance(mjd, int):
        mjd = np.array([mjd]) - 50000
    else:
        mjd = mjd - 50000
    if isinstance(run2d, str):
        try:
            run2d = np.array([int(run2d)])
        except ValueError:
            m = re.match('v(\\d+)_(\\d+)_(\\d+)', run2d)
            if m is None:
                raise ValueError('Could not extract integer run2d value!')
            else:
                N, M, P = m.groups()
                if not (5 <= int(N) <= 6 and int(M) <= 99 and (int(P) <= 99)):
                    raise ValueError('run2d string values are out-of-bounds!')
            run2d = np.array([(int(N) - 5) * 10000 + int(M) * 100 + int(P)], dtype=np.uint64)
    elif isinstance(run2d, int):
        run2d = np.array([run2d])
    if line is None:
        line = np.zeros(plate.shape, dtype=plate.dtype)
    elif isinstance(line, int):
        line = np.array([line])
    if index is None:
        index = np.zeros(plate.shape, dtype=plate.dtype)
    elif isinstance(index, int):
        index = np.array([index])
    if plate.shape != fiber.shape:
        raise ValueError('fiber.shape does not match plate.shape!')
    if plate.shape != mjd.shape:
        raise ValueError('mjd.shape does not match plate.shape!')
    if plate.shape != run2d.shape:
        raise ValueError('run2d.shape does not match plate.shape!')
    if plate.shape != line.shape:
        raise ValueError('line.shape does not match plate.shape!')
    if plate.shape != index.shape:
        raise ValueError('index.shape does not match plate.shape!')
    if ((plate < 0) | (plate >= 2 ** 14)).any():
        raise ValueError('plate values are out-of-bounds!')
    if ((fiber < 0) | (fiber >= 2 ** 12)).any():
        raise ValueError('fiber values are out-of-bounds!')
    if ((mjd < 0) | (mjd >= 2 ** 14)).any():
        raise ValueError('MJD values are out-of-bounds!')
    if ((run2d < 0) | (run2d >= 2 ** 14)).any():
        raise ValueError('MJD values are out-of-bounds!')
    if ((line < 0) | (line >= 2 ** 10)).any():
        raise ValueError('line values are out-of-bounds!')
    if ((index < 0) | (index >= 2 ** 10)).any():
        raise ValueError('index values are out-of-bounds!')
    specObjID = plate.astype(np.uint64) << 50 | fiber.astype(np.uint64) << 38 | mjd.astype(np.uint64) << 24 | run2d.astype(np.uint64) << 10 | (line.astype(np.uint64) | index.astype(np.uint64))
    return specObjID
