# pydl.pydlutils.mangle:is_cap_used -- rewritten by pyvc/amode.py from the current /repo source; loops cut: []
def is_cap_used(use_caps, i):
    """Returns ``True`` if a cap is used.

    Parameters
    ----------
    use_caps : :class:`int`
        Bit mask indicating which cap is used.
    i : :class:`int`
        Number indicating which cap we are interested in.

    Returns
    -------
    :class:`bool`
        ``True`` if a cap is used.
    """
    return use_caps & 1 << i != 0
