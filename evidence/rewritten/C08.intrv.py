# pydl.pydlutils.bspline:bspline.intrv -- rewritten by pyvc/amode.py from the current /repo source; loops cut: [0, 1]
def intrv(self, x):
    """Find the segment between breakpoints which contain each value in the array `x`.

        The minimum breakpoint is ``nbkptord - 1``, and the maximum
        is ``nbkpt - nbkptord - 1``.

        Parameters
        ----------
        x : :class:`numpy.ndarray`
            Data values, assumed to be monotonically increasing.

        Returns
        -------
        :class:`numpy.ndarray`
            Position of array elements with respect to breakpoints.
        """
    gb = self.breakpoints[self.mask]
    n = gb.size - self.nord
    indx = np.zeros((x.size,), dtype='i4')
    ileft = self.nord - 1
    __lo0, __hi0 = __pv.range_bounds(0, x.size)
    i = __lo0
    __pv.inv_check(0, 'init', locals())
    ileft, __brk1, __once, i = __pv.havoc(0, locals(), ['ileft', '__brk1', '__once', 'i'], ['indx'])
    __pv.noop()
    if __pv.choice(0):
        __pv.assume_iter(0, locals())
        __it0 = i
        __brk0 = False
        for __once in (0,):
            __pv.inv_check(1, 'init', locals())
            ileft, = __pv.havoc(1, locals(), ['ileft'], [])
            if __pv.choice(1):
                __pv.assume_inv(1, locals())
                if not (x[i] > gb[ileft + 1] and ileft < n - 1):
                    __pv.infeasible()
                __brk1 = False
                for __once in (0,):
                    ileft += 1
                if not __brk1:
                    __pv.inv_check(1, 'step', locals())
                    __pv.stop()
            else:
                __pv.assume_inv(1, locals())
                if x[i] > gb[ileft + 1] and ileft < n - 1:
                    __pv.infeasible()
            indx[i] = ileft
        if not __brk0:
            i = __it0 + 1
            __pv.inv_check(0, 'step', locals())
            __pv.stop()
        else:
            i = __it0
    else:
        __pv.assume_exit(0, locals())
        i = __pv.exit_var(0, locals())
    return indx
