# pydl.goddard.astro:vactoair -- rewritten by pyvc/amode.py from the current /repo source; loops cut: []
def vactoair(vacuum):
    """Convert vacuum wavelengths to wavelengths in air.

    Parameters
    ----------
    vacuum : array-like
        Values of wavelength in vacuum in Angstroms.
        :class:`~astropy.units.Quantity` objects with valid length
        dimensions will be internally converted to Angstrom.

    Returns
    -------
    array-like
        Values of wavelength in air in Angstroms.
        :class:`~astropy.units.Quantity` object was passed in, the output
        will be converted to the same units as the input.

    Notes
    -----
    * Formula from `P. E. Ciddor, Applied Optics, 35, 1566 (1996)
      <https://ui.adsabs.harvard.edu/abs/1996ApOpt..35.1566C/abstract>`_.
    * Values of wavelength below 2000 Å are not converted.
    """
    try:
        u = vacuum.unit
    except AttributeError:
        u = None
    try:
        t = vacuum.dtype
    except AttributeError:
        t = None
    if t is None:
        if vacuum < 2000.0:
            return vacuum
        air = vacuum
        v = vacuum
        g = None
    else:
        try:
            v = vacuum.to(Angstrom).value
        except AttributeError:
            v = vacuum
        g = v < 2000.0
        if g.all():
            return vacuum
        air = np.zeros(vacuum.shape, dtype=t) + v
    sigma2 = (10000.0 / v) ** 2
    fact = 1.0 + 0.05792105 / (238.0185 - sigma2) + 0.00167917 / (57.362 - sigma2)
    air = v / fact
    if g is not None:
        air[g] = v[g]
    if u is not None:
        air = (air * Angstrom).to(u)
    return air
