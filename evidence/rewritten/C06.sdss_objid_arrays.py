# pydl.pydlutils.sdss:sdss_objid -- rewritten by pyvc/amode.py from the current /repo source; loops cut: []
def sdss_objid(run, camcol, field, objnum, rerun=301, skyversion=None, firstfield=None):
    """Convert SDSS photometric identifiers into CAS-style ObjID.

    Bits are assigned in ObjID thus:

    ===== ========== ===============================================
    Bits  Name       Comment
    ===== ========== ===============================================
    63    empty      unassigned
    59-62 skyVersion resolved sky version (0-15)
    48-58 rerun      number of pipeline rerun
    32-47 run        run number
    29-31 camcol     camera column (1-6)
    28    firstField is this the first field in segment? Usually 0.
    16-27 field      field number within run
    0-15  object     object number within field
    ===== ========== ===============================================

    Parameters
    ----------
    run, camcol, field, objnum : :class:`int` or array of int
        Run, camcol, field and object number within field.  If arrays are
        passed, all must have the same length.
    rerun, skyversion, firstfield : :class:`int` or array of int, optional
        `rerun`, `skyversion` and `firstfield` usually don't change at all,
        especially for ObjIDs in DR8 and later.  If supplied,
        make sure the size matches all the other values.

    Returns
    -------
    :class:`numpy.ndarray` of :class:`numpy.int64`
        The ObjIDs of the objects.

    Raises
    ------
    :exc:`ValueError`
        If the sizes of the arrays don't match or if the array values are
        out of bounds.

    Notes
    -----
    * The ``firstField`` flag is never set in ObjIDs from DR8 and later.
    * On 32-bit systems, makes sure to explicitly declare all inputs as
      64-bit integers.

    Examples
    --------
    >>> from pydl.pydlutils.sdss import sdss_objid
    >>> print(sdss_objid(3704,3,91,146))
    [1237661382772195474]
    """
    if skyversion is None:
        skyversion = default_skyversion()
    if firstfield is None:
        firstfield = 0
    if isinstance(run, int):
        run = np.array([run], dtype=np.int64)
    if isinstance(camcol, int):
        camcol = np.array([camcol], dtype=np.int64)
    if isinstance(field, int):
        field = np.array([field], dtype=np.int64)
    if isinstance(objnum, int):
        objnum = np.array([objnum], dtype=np.int64)
    if isinstance(rerun, int):
        if rerun == 301:
            rerun = np.zeros(run.shape, dtype=np.int64) + 301
        else:
            rerun = np.array([rerun], dtype=np.int64)
    if isinstance(skyversion, int):
        if skyversion == default_skyversion():
            skyversion = np.zeros(run.shape, dtype=np.int64) + default_skyversion()
        else:
            skyversion = np.array([skyversion], dtype=np.int64)
    if isinstance(firstfield, int):
        if firstfield == 0:
            firstfield = np.zeros(run.shape, dtype=np.int64)
        else:
            firstfield = np.array([firstfield], dtype=np.int64)
    if run.shape != camcol.shape:
        raise ValueError('camcol.shape does not match run.shape!')
    if run.shape != field.shape:
        raise ValueError('field.shape does not match run.shape!')
    if run.shape != objnum.shape:
        raise ValueError('objnum.shape does not match run.shape!')
    if run.shape != rerun.shape:
        raise ValueError('rerun.shape does not match run.shape!')
    if run.shape != skyversion.shape:
        raise ValueError('skyversion.shape does not match run.shape!')
    if run.shape != firstfield.shape:
        raise ValueError('firstfield.shape does not match run.shape!')
    if ((firstfield < 0) | (firstfield > 1)).any():
        raise ValueError('firstfield values are out-of-bounds!')
    if ((skyversion < 0) | (skyversion >= 16)).any():
        raise ValueError('skyversion values are out-of-bounds!')
    if ((rerun < 0) | (rerun >= 2 ** 11)).any():
        raise ValueError('rerun values are out-of-bounds!')
    if ((run < 0) | (run >= 2 ** 16)).any():
        raise ValueError('run values are out-of-bounds!')
    if ((camcol < 1) | (camcol > 6)).any():
        raise ValueError('camcol values are out-of-bounds!')
    if ((field < 0) | (field >= 2 ** 12)).any():
        raise ValueError('camcol values are out-of-bounds!')
    if ((objnum < 0) | (objnum >= 2 ** 16)).any():
        raise ValueError('id values are out-of-bounds!')
    objid = skyversion << 59 | rerun << 48 | run << 32 | camcol << 29 | firstfield << 28 | field << 16 | objnum
    return objid
