# pydl.goddard.astro:gcirc -- rewritten by pyvc/amode.py from the current /repo source; loops cut: []
def gcirc(ra1, dec1, ra2, dec2, units=2):
    """Computes rigorous great circle arc distances.

    Parameters
    ----------
    ra1, dec1, ra2, dec2 : :class:`float` or array-like
        RA and Dec of two points.
    units : { 0, 1, 2 }, optional
        * units = 0: everything is already in radians
        * units = 1: RA in hours, dec in degrees, distance in arcsec.
        * units = 2: RA, dec in degrees, distance in arcsec (default)

    Returns
    -------
    :class:`float` or array-like
        The angular distance.  Units of the value returned depend on the
        input value of `units`.

    Notes
    -----
    The formula below is the one best suited to handling small angular
    separations.  See:
    https://en.wikipedia.org/wiki/Great-circle_distance
    """
    if units == 0:
        rarad1 = ra1
        dcrad1 = dec1
        rarad2 = ra2
        dcrad2 = dec2
    elif units == 1:
        rarad1 = np.deg2rad(15.0 * ra1)
        dcrad1 = np.deg2rad(dec1)
        rarad2 = np.deg2rad(15.0 * ra2)
        dcrad2 = np.deg2rad(dec2)
    elif units == 2:
        rarad1 = np.deg2rad(ra1)
        dcrad1 = np.deg2rad(dec1)
        rarad2 = np.deg2rad(ra2)
        dcrad2 = np.deg2rad(dec2)
    else:
        raise ValueError('units must be 0, 1 or 2!')
    deldec2 = (dcrad2 - dcrad1) / 2.0
    delra2 = (rarad2 - rarad1) / 2.0
    sindis = np.sqrt(np.sin(deldec2) * np.sin(deldec2) + np.cos(dcrad1) * np.cos(dcrad2) * np.sin(delra2) * np.sin(delra2))
    dis = 2.0 * np.arcsin(sindis)
    if units == 0:
        return dis
    else:
        return np.rad2deg(dis) * 3600.0
