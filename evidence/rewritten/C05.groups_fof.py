# pydl.pydlutils.spheregroup:groups.__init__ -- rewritten by pyvc/amode.py from the current /repo source; loops cut: []
def __init__(self, coordinates, distance, separation='euclid'):
    """Init creates an object and performs the friends-of-friends
        algorithm.  The coordinates can have arbitrary dimensions, with each
        column representing one of the dimensions.  Each row defines an object.
        If separation is not defined it defaults to Euclidean space.
        """
    if callable(separation):
        self.separation = separation
    elif isinstance(separation, (str,)):
        if separation == 'euclid':
            self.separation = self.euclid
        elif separation == 'sphereradec':
            self.separation = self.sphereradec
        else:
            raise PydlutilsException('Unknown separation function: {0}.'.format(separation))
    else:
        raise PydlutilsException('Improper type for separation!')
    nGroups = 0
    nTargets = coordinates.shape[1]
    multGroup = np.zeros(nTargets, dtype='i4')
    firstGroup = np.zeros(nTargets, dtype='i4') - 1
    nextGroup = np.zeros(nTargets, dtype='i4') - 1
    inGroup = np.arange(nTargets, dtype='i4')
    for i in range(nTargets):
        nTmp = 0
        minGroup = nGroups
        for j in range(nTargets):
            sep = self.separation(coordinates[:, i], coordinates[:, j])
            if sep <= distance:
                multGroup[nTmp] = j
                minGroup = min(minGroup, inGroup[j])
                nTmp += 1
        for j in range(nTmp):
            if inGroup[multGroup[j]] < nTargets:
                k = firstGroup[inGroup[multGroup[j]]]
                while k != -1:
                    inGroup[k] = minGroup
                    k = nextGroup[k]
            inGroup[multGroup[j]] = minGroup
        if minGroup == nGroups:
            nGroups += 1
        for j in range(i + 1):
            firstGroup[j] = -1
        for j in range(i, -1, -1):
            nextGroup[j] = firstGroup[inGroup[j]]
            firstGroup[inGroup[j]] = j
    renumbered = np.zeros(nTargets, dtype='bool')
    nTmp = nGroups
    nGroups = 0
    for i in range(nTargets):
        if not renumbered[i]:
            j = firstGroup[inGroup[i]]
            while j != -1:
                inGroup[j] = nGroups
                renumbered[j] = True
                j = nextGroup[j]
            nGroups += 1
    firstGroup[:] = -1
    for i in range(nTargets - 1, -1, -1):
        nextGroup[i] = firstGroup[inGroup[i]]
        firstGroup[inGroup[i]] = i
    for i in range(nGroups):
        multGroup[i] = 0
        j = firstGroup[i]
        while j != -1:
            multGroup[i] += 1
            j = nextGroup[j]
    self.nGroups = nGroups
    self.nTargets = nTargets
    self.inGroup = inGroup
    self.multGroup = multGroup
    self.firstGroup = firstGroup
    self.nextGroup = nextGroup
    return
