# pydl.smooth:smooth -- rewritten by pyvc/amode.py from the current /repo source; loops cut: [0]
def smooth(signal, owidth, edge_truncate=False):
    """Replicates the IDL ``SMOOTH()`` function.

    Parameters
    ----------
    signal : array-like
        The array to be smoothed.
    owidth : :class:`int` or array-like
        Width of the smoothing window.  Can be a scalar or an array with
        length equal to the number of dimensions of `signal`.
    edge_truncate : :class:`bool`, optional
        Set `edge_truncate` to ``True`` to apply smoothing to all points.
        Points near the edge are normally excluded from smoothing.

    Returns
    -------
    array-like
        A smoothed array with the same dimesions and type as `signal`.

    References
    ----------
    https://www.nv5geospatialsoftware.com/docs/smooth.html

    Examples
    --------
    """
    if owidth % 2 == 0:
        width = owidth + 1
    else:
        width = owidth
    if width < 3:
        return signal
    n = signal.size
    istart = int((width - 1) / 2)
    iend = n - int((width + 1) / 2)
    w2 = int(width / 2)
    s = signal.copy()
    __lo0, __hi0 = __pv.range_bounds(0, n)
    i = __lo0
    __pv.inv_check(0, 'init', locals())
    i, = __pv.havoc(0, locals(), ['i'], ['s'])
    __pv.noop()
    if __pv.choice(0):
        __pv.assume_iter(0, locals())
        __it0 = i
        __brk0 = False
        for __once in (0,):
            if i < istart:
                if edge_truncate:
                    s[i] = (signal[0:istart + i + 1].sum() + (istart - i) * signal[0]) / float(width)
            elif i > iend:
                if edge_truncate:
                    s[i] = (signal[i - istart:n].sum() + (i - iend) * signal[n - 1]) / float(width)
            else:
                s[i] = signal[i - w2:i + w2 + 1].sum() / float(width)
        if not __brk0:
            i = __it0 + 1
            __pv.inv_check(0, 'step', locals())
            __pv.stop()
        else:
            i = __it0
    else:
        __pv.assume_exit(0, locals())
        i = __pv.exit_var(0, locals())
    return s
