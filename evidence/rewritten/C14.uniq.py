# pydl.uniq:uniq -- rewritten by pyvc/amode.py from the current /repo source; loops cut: []
def uniq(x, index=None):
    """Replicates the IDL ``UNIQ()`` function.

    Returns the *subscripts* of the unique elements of an array.  The elements
    must actually be *sorted* before being passed to this function.  This can
    be done by sorting `x` explicitly or by passing the array subscripts that
    sort `x` as a second parameter.

    Parameters
    ----------
    x : array-like
        Search this array for unique items.
    index : array-like, optional
        This array provides the array subscripts that sort `x`.

    Returns
    -------
    array-like
        The subscripts of `x` that are the unique elements of `x`.

    Notes
    -----
    Given a sorted array, and assuming that there is a set of
    adjacent identical items, ``uniq()`` will return the subscript of the
    *last* unique item.  This charming feature is retained for
    reproducibility.

    References
    ----------
    https://www.nv5geospatialsoftware.com/docs/uniq.html

    Examples
    --------
    >>> import numpy as np
    >>> from pydl import uniq
    >>> data = np.array([ 1, 2, 3, 1, 5, 6, 1, 7, 3, 2, 5, 9, 11, 1 ])
    >>> print(uniq(np.sort(data)))
    [ 3  5  7  9 10 11 12 13]
    """
    array = __pyvc_import__('numpy', 'array')
    roll = __pyvc_import__('numpy', 'roll')
    if index is None:
        indicies = (x != roll(x, -1)).nonzero()[0]
        if indicies.size > 0:
            return indicies
        else:
            return array([x.size - 1])
    else:
        q = x[index]
        indicies = (q != roll(q, -1)).nonzero()[0]
        if indicies.size > 0:
            return index[indicies]
        else:
            return array([index[q.size - 1]], dtype=index.dtype)
