# pydl.pydlutils.sdss:unwrap_specobjid -- rewritten by pyvc/amode.py from the current /repo source; loops cut: []
def unwrap_specobjid(specObjID, run2d_integer=False, specLineIndex=False):
    """Unwrap CAS-style specObjID into plate, fiber, mjd, run2d.

    See :func:`~pydl.pydlutils.sdss.sdss_specobjid` for details on how the
    bits within a specObjID are assigned.

    Parameters
    ----------
    specObjID : :class:`numpy.ndarray`
        An array containing 64-bit integers or strings.  If strings are passed,
        they will be converted to integers internally.
    run2d_integer : :class:`bool`, optional
        If ``True``, do *not* attempt to convert the encoded run2d values
        to a string of the form 'vN_M_P'.
    specLineIndex : :class:`bool`, optional
        If ``True`` interpret any low-order bits as being an 'index'
        rather than a 'line'.

    Returns
    -------
    :class:`numpy.recarray`
        A record array with the same length as `specObjID`, with the columns
        'plate', 'fiber', 'mjd', 'run2d', 'line'.

    Examples
    --------
    >>> from numpy import array, uint64
    >>> from pydl.pydlutils.sdss import unwrap_specobjid
    >>> unwrap_specobjid(array([4565636362342690816], dtype=uint64))
    rec.array([(4055, 408, 55359, 'v5_7_0', 0)],
              dtype=[('plate', '<i4'), ('fiber', '<i4'), ('mjd', '<i4'), ('run2d', '<U8'), ('line', '<i4')])

    """
    try:
        np_string = np.string_
        np_unicode = np.unicode_
    except AttributeError:
        np_string = np.bytes_
        np_unicode = np.str_
    if specObjID.dtype.type is np_string or specObjID.dtype.type is np_unicode:
        tempobjid = specObjID.astype(np.uint64)
    elif specObjID.dtype.type is np.uint64:
        tempobjid = specObjID.copy()
    else:
        raise ValueError('Unrecognized type for specObjID!')
    run2d_dtype = 'U8'
    if run2d_integer:
        run2d_dtype = 'i4'
    line = 'line'
    if specLineIndex:
        line = 'index'
    unwrap = np.recarray(specObjID.shape, dtype=[('plate', 'i4'), ('fiber', 'i4'), ('mjd', 'i4'), ('run2d', run2d_dtype), (line, 'i4')])
    unwrap.plate = np.bitwise_and(tempobjid >> 50, 2 ** 14 - 1)
    unwrap.fiber = np.bitwise_and(tempobjid >> 38, 2 ** 12 - 1)
    unwrap.mjd = np.bitwise_and(tempobjid >> 24, 2 ** 14 - 1) + 50000
    run2d = np.bitwise_and(tempobjid >> 10, 2 ** 14 - 1)
    if run2d_integer:
        unwrap.run2d = run2d
    else:
        N = (run2d // 10000 + 5).tolist()
        M = (run2d % 10000 // 100).tolist()
        P = (run2d % 100).tolist()
        unwrap.run2d = ['v{0:d}_{1:d}_{2:d}'.format(n, m, p) for n, m, p in zip(N, M, P)]
    unwrap[line] = np.bitwise_and(tempobjid, 2 ** 10 - 1)
    return unwrap
