# pydl.pydlutils.mangle:cap_distance -- rewritten by pyvc/amode.py from the current /repo source; loops cut: []
def cap_distance(x, cm, points):
    """Compute the distance from a point to a cap, and also determine
    whether the point is inside or outside the cap.

    Parameters
    ----------
    x : :class:`~numpy.ndarray` or :class:`~numpy.recarray`
        ``X`` value of the cap (3-vector).
    cm : :class:`~numpy.ndarray` or :class:`~numpy.recarray`
        ``CM`` value of the cap.
    points : :class:`~numpy.ndarray` or :class:`~numpy.recarray`
        If `points` is a 3-vector, or set of 3-vectors, then assume the point
        is a Cartesian unit vector.  If `point` is a 2-vector or set
        of 2-vectors, assume the point is RA, Dec.

    Returns
    -------
    :class:`~numpy.ndarray`
        The distance(s) to the point(s) in degrees.  If the distance is
        negative, the point is outside the cap.
    """
    npoints, ncol = points.shape
    if ncol == 2:
        xyz = angles_to_x(points, latitude=True)
    elif ncol == 3:
        xyz = points
    else:
        raise ValueError('Inappropriate shape for point!')
    dotprod = np.clip(np.dot(xyz, x), -1.0, 1.0)
    cdist = np.degrees(np.arccos(1.0 - np.abs(cm)) - np.arccos(dotprod))
    if cm < 0:
        cdist *= -1.0
    return cdist
