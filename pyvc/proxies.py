"""Symbolic scalar proxies executed natively by CPython.

Value model (DESIGN 2.3): int -> Int (exact); bool -> Bool; float -> Real
(A1: machine floats as reals); numpy int64/uint64/int32 scalars -> BitVec
(wrap-around exact, NEP-50 weak Python scalars).
"""
import z3
from .engine import eng, Unsupported, _z


def fresh(sort, hint="v"):
    return z3.Const(eng().fresh_name(hint), sort)


class SBool:
    __slots__ = ("z",)

    def __init__(self, zz):
        self.z = zz if not isinstance(zz, bool) else z3.BoolVal(zz)

    def __bool__(self):
        return eng().decide(self.z)

    def __and__(self, o):
        return SBool(z3.And(self.z, zbool(o)))
    __rand__ = __and__

    def __or__(self, o):
        return SBool(z3.Or(self.z, zbool(o)))
    __ror__ = __or__

    def __xor__(self, o):
        return SBool(z3.Xor(self.z, zbool(o)))
    __rxor__ = __xor__

    def __invert__(self):
        return SBool(z3.Not(self.z))

    def __eq__(self, o):
        return SBool(self.z == zbool(o))

    def __ne__(self, o):
        return SBool(self.z != zbool(o))

    def __hash__(self):
        return id(self)

    # bool participates in arithmetic as 0/1
    def _int(self):
        return SInt(z3.If(self.z, 1, 0))

    def __add__(self, o):
        return self._int() + o
    __radd__ = __add__

    def __mul__(self, o):
        return self._int() * o
    __rmul__ = __mul__

    def __repr__(self):
        return "SBool(%s)" % self.z


def zbool(x):
    if isinstance(x, SBool):
        return x.z
    if isinstance(x, bool):
        return z3.BoolVal(x)
    if isinstance(x, z3.BoolRef):
        return x
    if isinstance(x, (SInt, SBV)):
        return (x != 0).z
    if isinstance(x, int):
        return z3.BoolVal(bool(x))
    import numpy as _np
    if isinstance(x, _np.bool_):
        return z3.BoolVal(bool(x))
    raise Unsupported("cannot use %r as a boolean term" % (x,))


def _num(x):
    """Lift a Python/NumPy concrete number or proxy to a z3 Int/Real term and tell which."""
    import numpy as _np
    if isinstance(x, SInt):
        return x.z, "int"
    if isinstance(x, SReal):
        return x.z, "real"
    if isinstance(x, SBool):
        return z3.If(x.z, z3.IntVal(1), z3.IntVal(0)), "int"
    if isinstance(x, bool):
        return z3.IntVal(int(x)), "int"
    if isinstance(x, (int, _np.integer)):
        return z3.IntVal(int(x)), "int"
    if isinstance(x, (float, _np.floating)):
        import fractions
        fr = fractions.Fraction(float(x))
        # A1 (floats as reals) applies to concrete float intermediates too: 0.3333333333333333 is read as 1/3
        nice = fr.limit_denominator(10 ** 6)
        if fr == nice or abs(float(nice) - float(x)) <= 4e-16 * abs(float(x)):
            fr = nice
        else:
            # otherwise the shortest decimal that round-trips (what the programmer wrote: 5.792105e-2, not its binary expansion)
            fr = fractions.Fraction(repr(float(x)))
        return z3.RealVal(str(fr)), "real"
    if isinstance(x, SBV):
        return x.as_int().z, "int"
    raise Unsupported("cannot lift %r (%s) to a number" % (x, type(x).__name__))


def _pair(a, b):
    za, ka = _num(a)
    zb, kb = _num(b)
    if ka == kb:
        return za, zb, ka
    if ka == "int":
        za = z3.ToReal(za)
    if kb == "int":
        zb = z3.ToReal(zb)
    return za, zb, "real"


def _wrap(zz, k):
    return SInt(zz) if k == "int" else SReal(zz)


_UF = {}


def floor_div(za, zb):
    """Python floor division on Int terms (z3 div is Euclidean)."""
    if z3.is_int_value(zb) and zb.as_long() > 0:
        return za / zb
    if eng().nl_mode == "uf":
        if "floordiv_int" not in _UF:
            _UF["floordiv_int"] = z3.Function("floordiv_int", z3.IntSort(), z3.IntSort(), z3.IntSort())
        return _UF["floordiv_int"](za, zb)
    # zb > 0: Euclidean quotient == floor.  zb < 0: floor(a/b) == floor((-a)/(-b)) with -b > 0.
    return z3.If(zb > 0, za / zb, (-za) / (-zb))


def py_mod(za, zb):
    if z3.is_int_value(zb) and zb.as_long() > 0:
        return za % zb
    if eng().nl_mode == "uf":
        if "mod_int" not in _UF:
            _UF["mod_int"] = z3.Function("mod_int", z3.IntSort(), z3.IntSort(), z3.IntSort())
        return _UF["mod_int"](za, zb)
    return za - zb * floor_div(za, zb)


class _Num:
    __slots__ = ("z",)

    def __hash__(self):
        return id(self)

    def __add__(self, o):
        if _is_arr(o):
            return NotImplemented
        a, b, k = _pair(self, o)
        return _wrap(a + b, k)

    def __radd__(self, o):
        if _is_arr(o):
            return NotImplemented
        a, b, k = _pair(o, self)
        return _wrap(a + b, k)

    def __sub__(self, o):
        if _is_arr(o):
            return NotImplemented
        a, b, k = _pair(self, o)
        return _wrap(a - b, k)

    def __rsub__(self, o):
        if _is_arr(o):
            return NotImplemented
        a, b, k = _pair(o, self)
        return _wrap(a - b, k)

    def __mul__(self, o):
        if _is_arr(o):
            return NotImplemented
        a, b, k = _pair(self, o)
        return _wrap(_mul(a, b, k), k)

    def __rmul__(self, o):
        if _is_arr(o):
            return NotImplemented
        a, b, k = _pair(o, self)
        return _wrap(_mul(a, b, k), k)

    def __neg__(self):
        return type(self)(-self.z)

    def __pos__(self):
        return self

    def __abs__(self):
        return type(self)(z3.If(self.z >= 0, self.z, -self.z))

    def __truediv__(self, o):
        if _is_arr(o):
            return NotImplemented
        a, b, k = _pair(self, o)
        frac = None
        if k == "int":
            sb = z3.simplify(b)
            if z3.is_int_value(sb) and sb.as_long() > 0:
                frac = (a, sb.as_long())
            a, b = z3.ToReal(a), z3.ToReal(b)
        _divcheck(b)
        r = SReal(_div(a, b))
        r.frac = frac
        return r

    def __rtruediv__(self, o):
        if _is_arr(o):
            return NotImplemented
        a, b, k = _pair(o, self)
        if k == "int":
            a, b = z3.ToReal(a), z3.ToReal(b)
        _divcheck(b)
        return SReal(_div(a, b))

    def __floordiv__(self, o):
        a, b, k = _pair(self, o)
        _divcheck(b)
        if k == "int":
            return SInt(floor_div(a, b))
        return SReal(z3.ToReal(z3.ToInt(a / b)))

    def __rfloordiv__(self, o):
        a, b, k = _pair(o, self)
        _divcheck(b)
        if k == "int":
            return SInt(floor_div(a, b))
        return SReal(z3.ToReal(z3.ToInt(a / b)))

    def __mod__(self, o):
        a, b, k = _pair(self, o)
        _divcheck(b)
        if k == "int":
            return SInt(py_mod(a, b))
        raise Unsupported("float modulo")

    def __rmod__(self, o):
        a, b, k = _pair(o, self)
        _divcheck(b)
        if k == "int":
            return SInt(py_mod(a, b))
        raise Unsupported("float modulo")

    def __pow__(self, o):
        if isinstance(o, int) and 0 <= o <= 8:
            r = 1
            for _ in range(o):
                r = r * self
            return r
        raise Unsupported("symbolic power")

    def __rpow__(self, o):
        if isinstance(o, int) and o == 2 and isinstance(self, SInt):
            return SInt(pow2(self.z))
        raise Unsupported("symbolic exponent")

    def _cmp(self, o, op):
        if _is_arr(o):
            return NotImplemented
        a, b, _ = _pair(self, o)
        return SBool(op(a, b))

    def __lt__(self, o):
        return self._cmp(o, lambda a, b: a < b)

    def __le__(self, o):
        return self._cmp(o, lambda a, b: a <= b)

    def __gt__(self, o):
        return self._cmp(o, lambda a, b: a > b)

    def __ge__(self, o):
        return self._cmp(o, lambda a, b: a >= b)

    def __eq__(self, o):
        if o is None:
            return False
        if isinstance(o, str):
            return False
        return self._cmp(o, lambda a, b: a == b)

    def __ne__(self, o):
        if o is None:
            return True
        if isinstance(o, str):
            return True
        return self._cmp(o, lambda a, b: a != b)

    def __bool__(self):
        return eng().decide(self.z != 0)

    def reshape(self, *shape):
        # numpy scalars have .reshape; a reduction over an object array hands back the bare element
        import numpy as _np
        a = _np.empty((1,), dtype=object)
        a[0] = self
        return a.reshape(*shape)


def _is_const(t):
    t = z3.simplify(t)
    return z3.is_int_value(t) or z3.is_rational_value(t)


def _mul(a, b, k):
    """product; in nl_mode 'uf' a product of two non-constant terms is an uninterpreted (commutative by
    argument ordering) function: equalities of products then follow by congruence only, which keeps the
    VCs linear and the verdicts stable.  Sound for proving (fewer facts), never used for refutation models
    without replay."""
    if eng().nl_mode != "uf" or _is_const(a) or _is_const(b):
        return a * b
    name = "mul_" + k
    if name not in _UF:
        srt = z3.IntSort() if k == "int" else z3.RealSort()
        _UF[name] = z3.Function(name, srt, srt, srt)
    f = _UF[name]
    return f(a, b) + f(b, a)        # symmetric by construction: commutativity without a quantified axiom


def _div(a, b):
    if eng().nl_mode != "uf" or _is_const(b):
        return a / b
    if "div_real" not in _UF:
        _UF["div_real"] = z3.Function("div_real", z3.RealSort(), z3.RealSort(), z3.RealSort())
    return _UF["div_real"](a, b)


def _divcheck(b):
    from .engine import eng as _e
    e = _e()
    if e.in_spec:
        return
    if z3.is_int_value(b) or z3.is_rational_value(b):
        if z3.simplify(b == 0).eq(z3.BoolVal(True)):
            raise ZeroDivisionError("division by zero")
        return
    e.prove("safety:div-nonzero", b != 0)


_POW2 = None


def pow2(zz):
    """2**k for symbolic k (uninterpreted with ground facts for 0..64)."""
    global _POW2
    if z3.is_int_value(zz):
        return z3.IntVal(2 ** zz.as_long())
    if _POW2 is None:
        _POW2 = z3.Function("pow2", z3.IntSort(), z3.IntSort())
    e = eng()
    if "pow2" not in e.ghost:
        e.ghost["pow2"] = True
        for k in range(0, 65):
            e.pc.append(_POW2(z3.IntVal(k)) == z3.IntVal(2 ** k))
    return _POW2(zz)


class SInt(_Num):
    __slots__ = ()

    def __init__(self, zz):
        self.z = z3.IntVal(zz) if isinstance(zz, int) else zz

    def __index__(self):
        zz = z3.simplify(self.z)
        if z3.is_int_value(zz):
            return zz.as_long()
        raise Unsupported("symbolic int forced to a concrete index: %s" % self.z)

    __int__ = __index__

    def __lshift__(self, o):
        a, b, k = _pair(self, o)
        return SInt(a * pow2(b))

    def __rlshift__(self, o):
        a, b, k = _pair(o, self)
        return SInt(a * pow2(b))

    def __rshift__(self, o):
        a, b, k = _pair(self, o)
        return SInt(floor_div(a, pow2(b)))

    def __and__(self, o):
        # only "x & 2**k"-style tests are modelled: via bit extraction on naturals
        raise Unsupported("bitwise & on unbounded ints; use bit() spec helper")

    def __repr__(self):
        return "SInt(%s)" % self.z

    def __format__(self, spec):
        return fmt_token(self, spec)


class SReal(_Num):
    __slots__ = ("frac",)

    def __init__(self, zz, frac=None):
        if isinstance(zz, (int, float)):
            zz = _num(float(zz))[0]
        self.z = zz
        self.frac = frac      # (Int term a, positive int c) when the value is exactly a/c: keeps int(a/c) in LIA

    def __repr__(self):
        return "SReal(%s)" % self.z

    def __float__(self):
        zz = z3.simplify(self.z)
        if z3.is_rational_value(zz):
            return float(zz.as_fraction())
        raise Unsupported("symbolic real forced to a concrete float: %s" % self.z)


_TRIG = {}
PI = z3.Real("PI")


def _tf(name):
    if name not in _TRIG:
        if name == "arctan2":
            _TRIG[name] = z3.Function("ARCTAN2", z3.RealSort(), z3.RealSort(), z3.RealSort())
        else:
            _TRIG[name] = z3.Function(name.upper(), z3.RealSort(), z3.RealSort())
    return _TRIG[name]


def trig(name, x, y=None):
    """uninterpreted transcendental function applied to real term(s); ground axiom instances are added per argument:
    sin/cos: Pythagoras, range, parity, values at 0; arccos/arcsin: range, monotonicity against earlier arguments, value at
    0/1, inverse of cos/sin on the principal range; arctan2: arctan2(k sin t, k cos t) = t for k > 0, -PI < t <= PI."""
    e = eng()
    zz = to_real(x).z if not isinstance(x, z3.ExprRef) else x
    if "pi" not in e.ghost:
        e.ghost["pi"] = True
        e.pc.append(z3.And(PI > z3.RealVal("3.14159"), PI < z3.RealVal("3.1416")))
    reg = e.ghost.setdefault("trig_terms", {})
    reg.setdefault(name, [])
    if name == "arctan2":
        yy = zz
        xx = to_real(y).z if not isinstance(y, z3.ExprRef) else y
        t = _tf("arctan2")(yy, xx)
        if not any(a[0].eq(yy) and a[1].eq(xx) for a in reg[name]):
            reg[name].append((yy, xx))
            e.pc.append(z3.And(t > -PI, t <= PI))
            e.ghost.setdefault("trig_calls", []).append(("arctan2", yy, xx))
        return SReal(t)
    f = _tf(name)
    t = f(zz)
    if not any(a.eq(zz) for a in reg[name]):
        if name in ("sin", "cos"):
            S_, C_ = _tf("sin"), _tf("cos")
            e.pc.append(S_(zz) * S_(zz) + C_(zz) * C_(zz) == 1)
            e.pc.append(z3.And(S_(zz) >= -1, S_(zz) <= 1, C_(zz) >= -1, C_(zz) <= 1))
            e.pc.append(z3.And(S_(-zz) == -S_(zz), C_(-zz) == C_(zz)))
            e.pc.append(z3.And(S_(z3.RealVal(0)) == 0, C_(z3.RealVal(0)) == 1))
            reg.setdefault("sin", []).append(zz)
            reg.setdefault("cos", []).append(zz)
        elif name in ("arccos", "arcsin"):
            for a in reg[name]:
                fa = f(a)
                dom = z3.And(a >= -1, a <= 1, zz >= -1, zz <= 1)
                if name == "arccos":
                    e.pc.append(z3.Implies(dom, z3.And((a < zz) == (fa > t), (a == zz) == (fa == t))))
                else:
                    e.pc.append(z3.Implies(dom, z3.And((a < zz) == (fa < t), (a == zz) == (fa == t))))
            if name == "arccos":
                e.pc.append(z3.Implies(z3.And(zz >= -1, zz <= 1), z3.And(t >= 0, t <= PI, (zz == 1) == (t == 0))))
            else:
                e.pc.append(z3.Implies(z3.And(zz >= -1, zz <= 1), z3.And(t >= -PI / 2, t <= PI / 2, (zz == 0) == (t == 0), (zz >= 0) == (t >= 0))))
            reg[name].append(zz)
            e.ghost.setdefault("trig_calls", []).append((name, zz))
        else:
            reg[name].append(zz)
    return SReal(t)


def _sreal_method(name):
    def m(self):
        if name == "degrees":
            return SReal(to_real(self).z * 180 / PI)
        if name == "radians":
            return SReal(to_real(self).z * PI / 180)
        if name == "sqrt":
            from . import npshim
            return npshim.NumpyShim().sqrt(self)
        return trig(name, self)
    return m


def _arctan2_method(self, other):
    return trig("arctan2", self, other)


def trunc_int(x):
    """Python int(x) for a real: truncation toward zero."""
    if isinstance(x, SInt):
        return x
    if isinstance(x, SReal):
        if getattr(x, "frac", None) is not None:
            a, c = x.frac
            return SInt(z3.If(a >= 0, a / c, -((-a) / c)))
        return SInt(z3.If(x.z >= 0, z3.ToInt(x.z), -z3.ToInt(-x.z)))
    if isinstance(x, SBV):
        return x.as_int()
    if isinstance(x, SBool):
        return x._int()
    return int(x)


def to_real(x):
    if isinstance(x, SReal):
        return x
    if isinstance(x, SInt):
        return SReal(z3.ToReal(x.z))
    if isinstance(x, SBV):
        return SReal(z3.ToReal(x.as_int().z))
    if isinstance(x, SBool):
        return SReal(z3.If(x.z, z3.RealVal(1), z3.RealVal(0)))
    return float(x)


# ---------------------------------------------------------------------------
# NumPy fixed-width integers
# ---------------------------------------------------------------------------
class SBV:
    """numpy integer scalar/element of given width and signedness (wraps like numpy)."""
    __slots__ = ("z", "bits", "signed")
    __array_priority__ = 1000

    def __init__(self, zz, bits=64, signed=True):
        self.z, self.bits, self.signed = zz, bits, signed

    def __hash__(self):
        return id(self)

    @property
    def dtype_name(self):
        return ("int%d" if self.signed else "uint%d") % self.bits

    def as_int(self):
        return SInt(z3.BV2Int(self.z, self.signed))

    def _coerce(self, o):
        """Return z3 BV for the other operand following NEP 50 (weak Python ints)."""
        if isinstance(o, SBV):
            if o.bits == self.bits and o.signed == self.signed:
                return o.z, self.bits, self.signed
            if o.signed == self.signed:
                b = max(o.bits, self.bits)
                return o.cast(b, self.signed).z, b, self.signed
            raise Unsupported("mixed signed/unsigned integer arithmetic (%s, %s): numpy promotes to float64"
                              % (self.dtype_name, o.dtype_name))
        if isinstance(o, bool):
            o = int(o)
        if isinstance(o, int):
            lo, hi = (-(1 << (self.bits - 1)), (1 << (self.bits - 1)) - 1) if self.signed else (0, (1 << self.bits) - 1)
            if not (lo <= o <= hi):
                raise OverflowError("Python integer %d out of bounds for %s" % (o, self.dtype_name))
            return z3.BitVecVal(o, self.bits), self.bits, self.signed
        if isinstance(o, SInt):
            # a symbolic Python int mixed with a numpy integer: weak scalar, must fit
            lo, hi = (-(1 << (self.bits - 1)), (1 << (self.bits - 1)) - 1) if self.signed else (0, (1 << self.bits) - 1)
            if not eng().decide(z3.And(o.z >= lo, o.z <= hi)):
                raise OverflowError("Python integer out of bounds for %s" % self.dtype_name)
            return z3.Int2BV(o.z, self.bits), self.bits, self.signed
        raise Unsupported("SBV op with %r" % (o,))

    def _lhs(self, bits):
        return self.cast(bits, self.signed).z if bits != self.bits else self.z

    def _bin(self, o, f):
        zo, b, s = self._coerce(o)
        return SBV(f(self._lhs(b), zo), b, s)

    def __add__(self, o):
        if _is_arr(o):
            return NotImplemented
        return self._bin(o, lambda a, b: a + b)
    __radd__ = __add__

    def __sub__(self, o):
        if _is_arr(o):
            return NotImplemented
        return self._bin(o, lambda a, b: a - b)

    def __rsub__(self, o):
        return self._bin(o, lambda a, b: b - a)

    def __mul__(self, o):
        if _is_arr(o):
            return NotImplemented
        return self._bin(o, lambda a, b: a * b)
    __rmul__ = __mul__

    def __and__(self, o):
        if _is_arr(o):
            return NotImplemented
        return self._bin(o, lambda a, b: a & b)
    __rand__ = __and__

    def __or__(self, o):
        if _is_arr(o):
            return NotImplemented
        return self._bin(o, lambda a, b: a | b)
    __ror__ = __or__

    def __xor__(self, o):
        return self._bin(o, lambda a, b: a ^ b)

    def __invert__(self):
        return SBV(~self.z, self.bits, self.signed)

    def __neg__(self):
        return SBV(-self.z, self.bits, self.signed)

    def __lshift__(self, o):
        return self._bin(o, lambda a, b: a << b)

    def __rshift__(self, o):
        if self.signed:
            return self._bin(o, lambda a, b: a >> b)
        return self._bin(o, lambda a, b: z3.LShR(a, b))

    def __pow__(self, o):
        # numpy: uint64(2) ** uint64(b) wraps modulo 2**64, i.e. 1 << b for b < 64 and 0 beyond
        if z3.is_bv_value(z3.simplify(self.z)) and z3.simplify(self.z).as_long() == 2:
            zo, b, s = self._coerce(o)
            return SBV(z3.If(z3.ULT(zo, b), z3.BitVecVal(1, b) << zo, z3.BitVecVal(0, b)), b, s)
        raise Unsupported("power of a symbolic numpy integer")

    def __rpow__(self, o):
        # numpy: uint64(2) ** uint64(b) wraps modulo 2**64, i.e. 1 << b for b < 64 and 0 beyond
        zo, b, s = self._coerce(o)
        if z3.is_bv_value(zo) and zo.as_long() == 2:
            e = self._lhs(b)
            return SBV(z3.If(z3.ULT(e, b), z3.BitVecVal(1, b) << e, z3.BitVecVal(0, b)), b, s)
        raise Unsupported("symbolic exponent with base other than 2")

    def __rlshift__(self, o):
        # int << sym  (e.g. 1 << i): exact only while no bit is shifted out, which is an obligation
        zo, b, s = self._coerce(o)
        r = zo << self._lhs(b)
        if not eng().in_spec:
            eng().prove("safety:shift-overflow", z3.And(z3.ULT(self._lhs(b), b), z3.LShR(r, self._lhs(b)) == zo),
                        "Python int shift modelled in %d bits must not lose bits" % b)
        return type(self)(r, b, s) if not isinstance(self, SPyInt) else SPyInt(r)

    def __floordiv__(self, o):
        zo, b, s = self._coerce(o)
        a = self._lhs(b)
        eng().prove("safety:div-nonzero", zo != 0)
        if s:
            # numpy floor division for signed ints
            q = a / zo   # signed division truncates
            r = z3.SRem(a, zo)
            adj = z3.And(r != 0, (r < 0) != (zo < 0))
            return SBV(z3.If(adj, q - 1, q), b, s)
        return SBV(z3.UDiv(a, zo), b, s)

    def __mod__(self, o):
        zo, b, s = self._coerce(o)
        a = self._lhs(b)
        eng().prove("safety:div-nonzero", zo != 0)
        if s:
            r = z3.SRem(a, zo)
            adj = z3.And(r != 0, (r < 0) != (zo < 0))
            return SBV(z3.If(adj, r + zo, r), b, s)
        return SBV(z3.URem(a, zo), b, s)

    def _cmp(self, o, fs, fu):
        if _is_arr(o):
            return NotImplemented
        if isinstance(o, int) and not isinstance(o, bool):
            # numpy compares a weak Python int exactly even when it does not fit the dtype
            lo, hi = (-(1 << (self.bits - 1)), (1 << (self.bits - 1)) - 1) if self.signed else (0, (1 << self.bits) - 1)
            if not (lo <= o <= hi):
                me = z3.BV2Int(self.z, self.signed)
                return SBool(fs(me, z3.IntVal(o)))
        zo, b, s = self._coerce(o)
        a = self._lhs(b)
        return SBool(fs(a, zo) if s else fu(a, zo))

    def __lt__(self, o):
        return self._cmp(o, lambda a, b: a < b, z3.ULT)

    def __le__(self, o):
        return self._cmp(o, lambda a, b: a <= b, z3.ULE)

    def __gt__(self, o):
        return self._cmp(o, lambda a, b: a > b, z3.UGT)

    def __ge__(self, o):
        return self._cmp(o, lambda a, b: a >= b, z3.UGE)

    def __eq__(self, o):
        if o is None or isinstance(o, str):
            return False
        return self._cmp(o, lambda a, b: a == b, lambda a, b: a == b)

    def __ne__(self, o):
        if o is None or isinstance(o, str):
            return True
        return self._cmp(o, lambda a, b: a != b, lambda a, b: a != b)

    def __bool__(self):
        return eng().decide(self.z != 0)

    def cast(self, bits, signed):
        """numpy astype between integer dtypes: C-style conversion."""
        if bits == self.bits:
            return SBV(self.z, bits, signed)
        if bits < self.bits:
            return SBV(z3.Extract(bits - 1, 0, self.z), bits, signed)
        ext = z3.SignExt if self.signed else z3.ZeroExt
        return SBV(ext(bits - self.bits, self.z), bits, signed)

    def __format__(self, spec):
        return fmt_token(self, spec)

    def __repr__(self):
        return "SBV[%s](%s)" % (self.dtype_name, self.z)

    def __index__(self):
        zz = z3.simplify(self.z)
        if z3.is_bv_value(zz):
            return zz.as_signed_long() if self.signed else zz.as_long()
        raise Unsupported("symbolic numpy integer forced to a concrete index")


class SPyInt(SBV):
    """a Python int known (by precondition) to lie in the int64 range, modelled by a 64-bit vector.
    + - * carry a no-overflow obligation (`safety:pyint-overflow`), so the bit-vector model of Python's
    unbounded arithmetic is exact wherever the obligations are discharged."""
    __slots__ = ()

    def __init__(self, zz, bits=64, signed=True):
        SBV.__init__(self, zz, 64, True)

    def _bin(self, o, f, kind=None):
        zo, b, s = self._coerce(o)
        r = f(self.z, zo)
        e = eng()
        if kind is not None and not e.in_spec:
            if kind == "add":
                ok = z3.And(z3.BVAddNoOverflow(self.z, zo, True), z3.BVAddNoUnderflow(self.z, zo))
            elif kind == "sub":
                ok = z3.And(z3.BVSubNoOverflow(self.z, zo), z3.BVSubNoUnderflow(self.z, zo, True))
            else:
                ok = z3.And(z3.BVMulNoOverflow(self.z, zo, True), z3.BVMulNoUnderflow(self.z, zo))
            e.prove("safety:pyint-overflow", ok, "Python int arithmetic modelled in 64 bits must not overflow")
        return SPyInt(r)

    def __add__(self, o):
        return self._bin(o, lambda a, b: a + b, "add")
    __radd__ = __add__

    def __sub__(self, o):
        return self._bin(o, lambda a, b: a - b, "sub")

    def __rsub__(self, o):
        return SPyInt(z3.BitVecVal(int(o), 64)) - self if isinstance(o, int) else NotImplemented

    def __mul__(self, o):
        return self._bin(o, lambda a, b: a * b, "mul")
    __rmul__ = __mul__

    def __neg__(self):
        return SPyInt(-self.z)

    def __repr__(self):
        return "SPyInt(%s)" % self.z


def sym_pyint(hint="k"):
    return SPyInt(fresh(z3.BitVecSort(64), hint))


# ---------------------------------------------------------------------------
# formatted numbers inside concrete strings: '{0:d}'.format(sym) -> token
# ---------------------------------------------------------------------------
FMT_TOKENS = {}


def fmt_token(value, spec):
    tok = "\x00%d\x00" % len(FMT_TOKENS)
    FMT_TOKENS[tok] = (value, spec)
    return tok


def _is_arr(o):
    from . import arrays
    import numpy as _np
    return isinstance(o, (arrays.SArr, _np.ndarray))


# ---------------------------------------------------------------------------
# spec helpers (used by contracts; also fine on concrete values)
# ---------------------------------------------------------------------------
def implies(a, b):
    return SBool(z3.Implies(zbool(a), zbool(b)))


def ite(c, a, b):
    if isinstance(c, bool):
        return a if c else b
    za, zb, k = _pair(a, b)
    return _wrap(z3.If(zbool(c), za, zb), k)


def conj(*xs):
    xs = [zbool(x) for x in xs]
    return SBool(z3.And(*xs)) if xs else SBool(True)


def disj(*xs):
    xs = [zbool(x) for x in xs]
    return SBool(z3.Or(*xs)) if xs else SBool(False)


def forall_int(body, hint="q", patterns=None):
    """forall q:Int. body(SInt q).  `patterns` may be a function q -> list of z3 terms."""
    q = z3.Int(eng().fresh_name(hint))
    b = zbool(body(SInt(q)))
    pats = []
    if patterns is not None:
        pats = [(_z(p)) for p in patterns(SInt(q))]
    if pats:
        return SBool(z3.ForAll([q], b, patterns=pats))
    return SBool(z3.ForAll([q], b))


def exists_int(body, hint="q"):
    q = z3.Int(eng().fresh_name(hint))
    return SBool(z3.Exists([q], zbool(body(SInt(q)))))


def sym_int(hint="i"):
    return SInt(fresh(z3.IntSort(), hint))


def sym_real(hint="x"):
    return SReal(fresh(z3.RealSort(), hint))


def sym_bool(hint="b"):
    return SBool(fresh(z3.BoolSort(), hint))


def sym_bv(hint="k", bits=64, signed=True):
    return SBV(fresh(z3.BitVecSort(bits), hint), bits, signed)


# numpy object-dtype ufunc loops call the method of the same name on each element
for _n in ("arccos", "arcsin", "cos", "sin", "sqrt", "degrees", "radians", "deg2rad", "rad2deg"):
    _real = {"deg2rad": "radians", "rad2deg": "degrees"}.get(_n, _n)
    setattr(SReal, _n, _sreal_method(_real))
    setattr(SInt, _n, _sreal_method(_real))
SReal.arctan2 = _arctan2_method
