"""./check <Cxx> --tier quick|thorough [--replay FILE] [--freeze]

Exit codes: 0 property held on everything explored; 1 violation (VIOLATION line printed);
3 checker error (no verdict).  `unknown`/timeouts are never reported as "held".
"""
import argparse
import importlib
import json
import os
import sys
import time
import warnings
import concurrent.futures as cf
import multiprocessing as mp

warnings.filterwarnings("ignore")
VERIF = os.path.dirname(os.path.dirname(os.path.abspath(__file__)))
sys.path.insert(0, VERIF)
# where evidence/ and replays/ are written: /verif itself, unless a scratch run (a seeded change applied to a scratch
# worktree named by VERIF_REPO) asks for another place so that the committed evidence is not touched
OUT = os.environ.get("VERIF_OUT", VERIF)

from pyvc import harness  # noqa: E402
from pyvc.harness import REGISTRY, run_contract, native_eval, unjson, jsonable  # noqa: E402

PROP_META = {}


def _replay(cls, inputs, excl=()):
    """run the REAL code on a concrete input and evaluate the contract natively -> None | (ok, detail)"""
    obj = cls()
    if hasattr(obj, "native_replay"):
        return obj.native_replay(inputs)
    return native_eval(obj, unjson(inputs), excl)


def load_props():
    out = {}
    with open(os.path.join(VERIF, "properties.jsonl")) as f:
        for line in f:
            d = json.loads(line)
            out[d["id"]] = d
    return out


def load_findings(prop):
    path = os.path.join(VERIF, "known_findings.jsonl")
    out = []
    if os.path.exists(path):
        for line in open(path):
            line = line.strip()
            if not line or line.startswith("#"):
                continue
            if line.startswith("fixed:"):
                continue
            d = json.loads(line)
            if d.get("property") == prop and d.get("kind") == "finding":
                out.append(d)
    return out


def _job(args):
    cls_mod, cls_name, tier, seed, exclusions = args
    warnings.filterwarnings("ignore")
    mod = importlib.import_module(cls_mod)
    cls = getattr(mod, cls_name)
    if hasattr(cls, "run_job"):
        return cls().run_job(tier, seed, exclusions)
    return run_contract(cls, tier, seed, exclusions)


def main(argv=None):
    ap = argparse.ArgumentParser()
    ap.add_argument("prop")
    ap.add_argument("--tier", default=os.environ.get("VERIF_TIER", "quick"))
    ap.add_argument("--replay")
    ap.add_argument("--freeze", action="store_true", help="rewrite baseline_obligations.json entry for this property")
    ap.add_argument("--only", help="run only the named job (debugging)")
    ap.add_argument("--jobs", type=int, default=min(16, os.cpu_count() or 4))
    a = ap.parse_args(argv)
    prop = a.prop
    seed = int(os.environ.get("VERIF_SEED", "0"))
    t0 = time.time()
    modname = "contracts." + prop.lower()
    importlib.import_module(modname)
    classes = REGISTRY.get(prop, [])
    if a.only:
        classes = [c for c in classes if c.name == a.only]
    if not classes:
        print("CHECKER-ERROR: no contracts registered for", prop)
        return 3
    if a.replay:
        return do_replay(prop, a.replay, classes)

    # ---- known findings: replay each recorded input on the real code first
    findings = load_findings(prop)
    by_job_excl = {}
    known_lines = []
    byname = {c.name: c for c in classes}
    for fd in findings:
        cls = byname.get(fd["job"])
        if cls is None:
            continue
        fc = cls()
        still = False
        try:
            r = _replay(cls, fd["input"])
            still = (r is not None and not r[0])
        except Exception:
            still = True
        if still:
            known_lines.append("KNOWN-FINDING: property=%s %s" % (prop, fd["what"]))
            by_job_excl.setdefault(fd["job"], []).append(fd)
        else:
            print("note: recorded finding no longer reproduces, exclusion dropped for this run: %s" % fd["what"])

    work = [(c.__module__, c.__name__, a.tier, seed, by_job_excl.get(c.name, [])) for c in classes]
    results = []
    ctx = mp.get_context("fork")
    with cf.ProcessPoolExecutor(max_workers=a.jobs, mp_context=ctx) as ex:
        futs = {ex.submit(_job, w): w for w in work}
        for fu in cf.as_completed(futs):
            try:
                results.append(fu.result())
            except Exception as e:
                w = futs[fu]
                results.append(dict(job=w[1], crashed="worker died: %r" % (e,), obligations=[], failures=[], level="?",
                                    assumptions=[], native_runs=0, native_failures=[], target="?", paths=0, solver_s=0, queries=0, wall_s=0))
    results.sort(key=lambda r: r["job"])

    # ---- baseline obligations
    base_path = os.path.join(VERIF, "baseline_obligations.json")
    baseline = {}
    if os.path.exists(base_path):
        baseline = json.load(open(base_path))
    names_now = {}
    for r in results:
        names_now[r["job"]] = sorted({o["name"] for o in r["obligations"]})
    bkey = prop if a.tier != "thorough" else prop + "@thorough"      # one list of obligation names per tier
    if a.freeze:
        baseline[bkey] = names_now
        json.dump(baseline, open(base_path + ".tmp", "w"), indent=1, sort_keys=True)
        os.replace(base_path + ".tmp", base_path)
        print("baseline frozen for", prop, sum(len(v) for v in names_now.values()), "obligation names")

    violations = []     # (job, obligation, replay-dict, has_input)
    undecided = []      # (job, obligation, solver reason): `unknown` on an obligation that is not in the frozen list of discharged ones
    crashes = []
    for r in results:
        if r.get("crashed"):
            crashes.append((r["job"], r["crashed"]))
        cls = byname[r["job"]] if r["job"] in byname else None
        excl = by_job_excl.get(r["job"], [])
        bad = {}
        known_names = set(baseline.get(bkey, {}).get(r["job"], []))
        for o in r["obligations"]:
            if o["status"] == "unsat":
                continue
            if o["status"] == "unknown" and o["name"] not in known_names:
                # never proved on the unchanged tree either (not in the frozen list for this tier): undecided, not a violation
                undecided.append((r["job"], o["name"], o.get("reason", "")))
                continue
            bad.setdefault(o["name"], []).append(o)
        for name, obs in bad.items():
            rep = dict(property=prop, job=r["job"], target=r["target"], obligation=name,
                       solver_status=[o["status"] for o in obs], solver_reason=[o.get("reason", "") for o in obs],
                       notes=[o.get("note", "") for o in obs], models=[o.get("model") for o in obs][:3])
            found = None
            if cls is not None:
                fc = cls()
                for o in obs:
                    if o.get("inputs") is not None:
                        try:
                            rr = _replay(cls, o["inputs"], excl)
                        except Exception as e:
                            rr = None
                        if rr is not None and not rr[0]:
                            found = dict(inputs=o["inputs"], observed=rr[1], source="solver model replayed on the real function")
                            break
                if found is None and r.get("native_failures"):
                    nf = r["native_failures"][0]
                    found = dict(inputs=nf["inputs"], observed=nf["detail"], source="bounded search over the contract's sample space (real function)")
            if found:
                rep.update(found)
            violations.append((r["job"], name, rep, bool(found)))
        if not bad and r.get("native_failures"):
            nf = r["native_failures"][0]
            rep = dict(property=prop, job=r["job"], target=r["target"], obligation=r["job"] + ":runtime-contract",
                       inputs=nf["inputs"], observed=nf["detail"], source="run-time contract check on the real function")
            violations.append((r["job"], r["job"] + ":runtime-contract", rep, True))
        # obligations that existed on the unchanged tree and are no longer generated
        if not a.freeze and not a.only and not r.get("crashed") and not r.get("truncated"):      # a budget-truncated bounded job enumerates fewer cases: no diff
            for nm in baseline.get(bkey, {}).get(r["job"], []):
                if nm not in names_now.get(r["job"], []):
                    rep = dict(property=prop, job=r["job"], target=r["target"], obligation=nm,
                               solver_status=["not-generated"],
                               notes=["obligation was discharged on the baseline tree and is no longer generated (path vanished or structure changed)"])
                    violations.append((r["job"], nm, rep, False))

    for line in known_lines:
        print(line)
    code = 0
    os.makedirs(os.path.join(OUT, "replays", prop), exist_ok=True)
    if crashes:
        for j, c in crashes:
            print("CHECKER-ERROR: job %s: %s" % (j, c.strip().splitlines()[-1] if c.strip() else c))
            if os.environ.get("PYVC_VERBOSE"):
                print(c)
        code = 3
    seen = {}
    import re as _re
    for job, name, rep, has_input in violations:
        base = _re.sub(r"\[[^\]]*\]$", "", name)       # one VIOLATION line per obligation, bounded cases are listed in the replay file
        key = (job, base)
        if key in seen:
            seen[key].append(name)
            continue
        seen[key] = [name]
        fn = "%s.%s.json" % (job, name.replace(":", "_").replace("@", "_").replace("/", "_"))
        path = os.path.join(OUT, "replays", prop, fn)
        rep["replay_cmd"] = "./check %s --replay %s" % (prop, path)
        json.dump(rep, open(path, "w"), indent=1, default=str)
        print("VIOLATION property=%s replay=%s%s" % (prop, path, "" if has_input else " no-failing-input-found"))
        sts = rep.get("solver_status", ["runtime"])
        print("   obligation %s (%s)%s" % (name, ",".join("%s x%d" % (x, sts.count(x)) for x in sorted(set(sts))),
                                          ("  input: " + json.dumps(rep.get("inputs"))[:300]) if has_input else ""))
        code = 1
    for job, name, reason in sorted(set(undecided))[:20]:
        print("UNDECIDED: property=%s obligation %s (%s)" % (prop, name, reason or "unknown"))
    if undecided and code == 0:
        code = 2
    write_evidence(prop, a.tier, seed, results, violations, known_lines, time.time() - t0, crashes)
    tot = sum(len(r["obligations"]) for r in results)
    dis = sum(1 for r in results for o in r["obligations"] if o["status"] == "unsat")
    print("%s %s: %d jobs, %d/%d obligation instances discharged, %d native runs, %.1fs -> exit %d"
          % (prop, a.tier, len(results), dis, tot, sum(r.get("native_runs", 0) for r in results), time.time() - t0, code))
    return code


def do_replay(prop, path, classes):
    rep = json.load(open(path))
    byname = {c.name: c for c in classes}
    cls = byname.get(rep["job"])
    if cls is None:
        print("CHECKER-ERROR: job %s unknown" % rep["job"])
        return 3
    if "inputs" not in rep:
        print("replay file carries no failing input (obligation %s: %s)" % (rep["obligation"], rep.get("solver_status")))
        print(json.dumps(rep, indent=1)[:3000])
        return 1
    r = _replay(cls, rep["inputs"])
    if r is None:
        print("input is outside the contract's precondition on this tree")
        return 0
    ok, detail = r
    print("replay of %s on the real %s: %s -- %s" % (json.dumps(rep["inputs"])[:500], rep["target"], "HOLDS" if ok else "VIOLATED", detail))
    if not ok:
        print("VIOLATION property=%s replay=%s" % (prop, path))
        return 1
    return 0


def write_evidence(prop, tier, seed, results, violations, known_lines, wall, crashes):
    proof_jobs = [r for r in results if r.get("level") in ("P", "C")]
    bounded_jobs = [r for r in results if r.get("level") == "B"]
    names = {}
    for r in proof_jobs:
        for o in r["obligations"]:
            d = names.setdefault((r["job"], o["name"]), dict(instances=0, unsat=0, secs=0.0))
            d["instances"] += 1
            d["unsat"] += o["status"] == "unsat"
            d["secs"] += o["secs"]
    n_obl = len(names)
    n_dis = sum(1 for d in names.values() if d["unsat"] == d["instances"])
    inst = sum(d["instances"] for d in names.values())
    assumptions = sorted({x for r in results for x in r.get("assumptions", [])})
    samples = []
    for (job, nm), d in list(names.items())[:12]:
        samples.append(dict(job=job, obligation=nm, path_instances=d["instances"], discharged=d["unsat"], solver_s=round(d["secs"], 3)))
    bnames = {}
    for r in bounded_jobs:
        for o in r["obligations"]:
            d = bnames.setdefault((r["job"], o["name"]), dict(instances=0, unsat=0, backend=o.get("backend")))
            d["instances"] += 1
            d["unsat"] += o["status"] == "unsat"
    for (job, nm), d in list(bnames.items())[:max(0, 12 - len(samples))]:
        samples.append(dict(job=job, obligation=nm, bounded=True, instances=d["instances"], held=d["unsat"], backend=d["backend"]))
    # mechanical scan: every `.assume(` in this property's contract module (callee-contract stubs and preconditions), reported, not hidden
    assume_sites = []
    try:
        src = open(os.path.join(VERIF, "contracts", prop.lower() + ".py")).read().splitlines()
        assume_sites = ["contracts/%s.py:%d: %s" % (prop.lower(), i + 1, l.strip()[:140]) for i, l in enumerate(src) if ".assume(" in l]
    except OSError:
        pass
    fns = [dict(job=r["job"], target=r["target"], level=r.get("level"), bound=r.get("bound"), paths=r.get("paths"),
                path_kinds=r.get("path_kinds"), loops_cut=r.get("loops_cut"), n_loops=r.get("n_loops"),
                obligations=len({o["name"] for o in r["obligations"]}),
                instances=len(r["obligations"]), solver_s=round(r.get("solver_s", 0), 3), queries=r.get("queries"),
                native_runs=r.get("native_runs"), rewritten_source_sha1=r.get("source_sha"), crashed=bool(r.get("crashed")))
           for r in results]
    prop_meta = load_props().get(prop, {})
    mod = importlib.import_module("contracts." + prop.lower())
    undecided = getattr(mod, "UNDECIDED", [])
    level = getattr(mod, "EVIDENCE_LEVEL", "proof")
    cov = dict(
        obligations=n_obl, discharged=n_dis, obligation_instances=inst,
        checker_cmd="./check %s --tier %s  (pyvc: VCs generated from the real AST in /repo by loop-cutting + native symbolic execution; discharged by z3 %s via the Python API, fresh solver per query, rlimit-bounded)" % (prop, tier, _z3v()),
        trusted_base=assumptions + ["A2 the proxy classes and the AST rewrites of pyvc/amode.py are faithful to CPython/numpy",
                                    "A6 z3 is correct"],
        functions_under_contract=fns,
        by_backend=_by_backend(results),
        solver_s=round(sum(r.get("solver_s", 0) for r in results), 3),
        bounded=[dict(job=r["job"], target=r["target"], bound=r.get("bound"), obligations=len(r["obligations"]),
                      discharged=sum(1 for o in r["obligations"] if o["status"] == "unsat")) for r in bounded_jobs],
        traces_validated_against_impl=sum(r.get("native_runs", 0) for r in results),
        undecided_clauses=undecided,
        known_findings=known_lines,
        samples=samples or [dict(note="no obligations in this run")],
        assume_sites=assume_sites,
        bounded_obligations=len(bnames), bounded_held=sum(1 for d in bnames.values() if d["unsat"] == d["instances"]),
        explanation=getattr(mod, "EXPLANATION", ""),
        evaluations=inst + sum(r.get("native_runs", 0) for r in results),
        distinct_nontrivial=n_obl + len(bnames),
        rule=("one case = one named obligation, aggregated over the paths / generated inputs on which it arises; proof-level (P/C) obligations are sent to "
              "the solver or the polynomial-identity checker and counted under obligations/discharged; bounded (B) obligations are clauses evaluated on "
              "every symbolic shape or generated input of the stated bound and counted under bounded_obligations/bounded_held, never as proved"),
    )
    ev = dict(property_id=prop, tier=tier if tier in ("quick", "thorough") else "quick", seed=seed, level=level, coverage=cov,
              assumptions=assumptions, wall_s=round(wall, 2), violations=len({(v[0], v[1]) for v in violations}),
              checker_errors=[c[0] for c in crashes])
    os.makedirs(os.path.join(OUT, "evidence"), exist_ok=True)
    json.dump(ev, open(os.path.join(OUT, "evidence", prop + ".json"), "w"), indent=1, default=str)
    # rewritten sources for inspection
    os.makedirs(os.path.join(OUT, "evidence", "rewritten"), exist_ok=True)
    for r in results:
        if r.get("rewritten_source"):
            open(os.path.join(OUT, "evidence", "rewritten", "%s.%s.py" % (prop, r["job"])), "w").write(
                "# %s -- rewritten by pyvc/amode.py from the current /repo source; loops cut: %s\n" % (r["target"], r.get("loops_cut")) + r["rewritten_source"] + "\n")


def _by_backend(results):
    out = {}
    for r in results:
        for o in r["obligations"]:
            b = o.get("backend") or "z3"
            out[b] = out.get(b, 0) + 1
    return out


def _z3v():
    import z3
    return z3.get_version_string()


if __name__ == "__main__":
    sys.exit(main())
