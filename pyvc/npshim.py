"""numpy / re / os shims seen by the rewritten function (each model is a listed assumption).

Anything not overridden falls through to the real numpy (dtype objects, constants).
A function called without any symbolic argument is served by the real numpy.
"""
import importlib
import z3
import numpy as _np

from .engine import eng, Unsupported
from .proxies import SBool, SInt, SReal, SBV, zbool, trunc_int, to_real, fresh, ite, _num
from . import arrays as A


_SQRT = []


def sqrt_uf():
    if not _SQRT:
        _SQRT.append(z3.Function("SQRT", z3.RealSort(), z3.RealSort()))
    return _SQRT[0]


def _sym(x):
    return isinstance(x, (SBool, SInt, SReal, SBV, A.SArr, A.SArr2)) or hasattr(x, "_pyvc_symbolic")


def _anysym(*xs):
    for x in xs:
        if _sym(x):
            return True
        if isinstance(x, (list, tuple)) and any(_sym(y) for y in x):
            return True
    return False


class NumpyShim:
    def __init__(self, int_mode="math"):
        # int_mode 'math': numpy integer arrays are modelled with mathematical integers
        #                  (assumption: no int64 overflow in index arithmetic);
        #          'bv'  : exact 64-bit wrap-around semantics.
        self.int_mode = int_mode
        self.ndarray = _np.ndarray

    def __getattr__(self, name):
        return getattr(_np, name)

    def atleast_1d(self, a):
        """symbolic arrays and contract stand-ins already have their dimensionality: passed through unchanged"""
        return a if _sym(a) else _np.atleast_1d(a)

    def atleast_2d(self, a):
        return a if _sym(a) else _np.atleast_2d(a)

    def _kind(self, dtype, default=None):
        if dtype is None:
            return default
        nm = getattr(dtype, "__name__", "")
        if nm in ("s_bool", "s_int", "s_float"):
            dtype = {"s_bool": bool, "s_int": int, "s_float": float}[nm]
        k = A.kind_from_dtype(dtype)
        if self.int_mode == "math" and k.is_bv:
            return A.INT
        return k

    def _default_int(self):
        return A.INT if self.int_mode == "math" else A.INT64

    # -- numpy integer scalar constructors (bv mode): np.uint64(x) of a symbolic or, with force_symbolic, any value -> SBV
    def _scalar(self, x, bits, signed):
        from .proxies import SPyInt
        if isinstance(x, SBV):
            return SBV(x.cast(bits, signed).z, bits, signed)
        if isinstance(x, SInt):
            return SBV(z3.Int2BV(x.z, bits), bits, signed)
        if self.int_mode == "bv" and getattr(self, "force_symbolic", False) and isinstance(x, (int, _np.integer)):
            return SBV(z3.BitVecVal(int(x), bits), bits, signed)
        return None

    def enable_scalar_ctors(self):
        """np.uint64(x) / np.int64(x) of symbolic values -> 64-bit vectors.  Off by default because the wrappers are not the
        numpy type objects (code that compares `arr.dtype.type is np.uint64` needs the real ones)."""
        shim = self

        class _Ctor:
            def __init__(self, real, bits, signed):
                self._np_type, self.bits, self.signed = real, bits, signed

            def __call__(self, x=0):
                r = shim._scalar(x, self.bits, self.signed)
                return r if r is not None else self._np_type(x)
        self.__dict__["uint64"] = _Ctor(_np.uint64, 64, False)
        self.__dict__["int64"] = _Ctor(_np.int64, 64, True)

    # -- constructors -----------------------------------------------------
    def zeros(self, shape, dtype=None, **kw):
        return self._full(shape, dtype, 0)

    def ones(self, shape, dtype=None, **kw):
        return self._full(shape, dtype, 1)

    def empty(self, shape, dtype=None, **kw):
        k = self._kind(dtype, A.REAL)
        n = _shape1(shape)
        if n is None:
            return _np.empty(shape, dtype=dtype)
        return A.SArr.symbolic(k, n, "empty")

    def _full(self, shape, dtype, v):
        nm = getattr(dtype, "__name__", "")
        if nm in ("s_bool", "s_int", "s_float"):
            dtype = {"s_bool": bool, "s_int": int, "s_float": float}[nm]
        if isinstance(shape, tuple) and len(shape) == 2 and _anysym(shape):
            k = self._kind(dtype, A.REAL)
            return A.SArr2.const(k, A._zi(shape[0]), A._zi(shape[1]), v)
        if getattr(self, "nmode", False) and not _anysym(shape):
            # N-mode: float arrays become object arrays so that symbolic reals can be stored into them
            try:
                isfloat = dtype is None or _np.dtype(dtype).kind == "f"
            except TypeError:
                isfloat = False
            if isfloat:
                out = _np.empty(shape, dtype=object)
                out[...] = float(v)
                return out
            return (_np.zeros if v == 0 else _np.ones)(shape, dtype=dtype)
        if not _anysym(shape):
            if isinstance(shape, tuple) and len(shape) > 1 or not getattr(self, "force_symbolic", False):
                if not getattr(self, "force_symbolic", False):
                    return (_np.zeros if v == 0 else _np.ones)(shape, dtype=dtype)
        k = self._kind(dtype, A.REAL)
        n = _shape1(shape, force=True)
        return A.SArr.const(k, n, v)

    def array(self, obj, dtype=None, **kw):
        if isinstance(obj, A.SArr):
            out = obj.copy()
            return out if dtype is None else out.astype(self._kind(dtype))
        if isinstance(obj, (list, tuple)) and _anysym(obj) and getattr(self, "nmode", False):
            # N-mode: symbolic scalars travel in real numpy object arrays (numpy itself does the data movement)
            out = _np.empty((len(obj),), dtype=object)
            for j, v in enumerate(obj):
                out[j] = v
            return out
        if isinstance(obj, (list, tuple)) and _anysym(obj):
            k = self._kind(dtype)
            items = list(obj)
            if k is None:
                k = A.kind_of_value(items[0])
                for it in items[1:]:
                    k = A.promote(k, A.kind_of_value(it))
                if k == A.INT and self.int_mode == "bv":
                    k = A.INT64
            return A.SArr.from_list(items, k)
        if getattr(self, "force_symbolic", False) and isinstance(obj, (list, tuple)) and obj and \
                all(isinstance(x, (int, float, bool)) for x in obj):
            k = self._kind(dtype)
            if k is None:
                k = A.REAL if any(isinstance(x, float) for x in obj) else self._default_int()
            return A.SArr.from_list(list(obj), k)
        return _np.array(obj, dtype=dtype, **kw)

    asarray = array

    def arange(self, *args, dtype=None, **kw):
        if not _anysym(*args):
            if not getattr(self, "force_symbolic", False):
                return _np.arange(*args, dtype=dtype, **kw)
        if len(args) == 1:
            lo, hi = 0, args[0]
        elif len(args) == 2:
            lo, hi = args
        else:
            raise Unsupported("arange with step")
        zlo, zhi = A._zi(lo), A._zi(hi)
        k = self._kind(dtype, self._default_int())
        n = A.zmax(zhi - zlo, z3.IntVal(0))
        if k == A.INT:
            return A.SArr.from_fn(k, n, lambda i: zlo + i)
        if k == A.REAL:
            return A.SArr.from_fn(k, n, lambda i: z3.ToReal(zlo + i))
        return A.SArr.from_fn(k, n, lambda i: z3.Int2BV(zlo + i, k.bits))

    # -- element-wise functions -----------------------------------------------
    def floor(self, x):
        if isinstance(x, SReal):
            return SReal(z3.ToReal(z3.ToInt(x.z)))
        if isinstance(x, SInt):
            return to_real(x)
        if isinstance(x, A.SArr):
            return x._ew(0, lambda a, b: self.floor(a))
        return _np.floor(x)

    def ceil(self, x):
        if isinstance(x, SReal):
            return SReal(-z3.ToReal(z3.ToInt(-x.z)))
        if isinstance(x, SInt):
            return to_real(x)
        if isinstance(x, A.SArr):
            return x._ew(0, lambda a, b: self.ceil(a))
        return _np.ceil(x)

    def abs(self, x):
        return abs(x)

    def absolute(self, x):
        return abs(x)

    def bitwise_and(self, a, b):
        return a & b

    def bitwise_or(self, a, b):
        return a | b

    def logical_not(self, a):
        if isinstance(a, A.SArr):
            return a._ew(0, lambda x, y: SBool(z3.Not(zbool(x))))
        if _sym(a):
            return SBool(z3.Not(zbool(a)))
        return _np.logical_not(a)

    def logical_and(self, a, b):
        if isinstance(a, A.SArr):
            return a._ew(b, lambda x, y: SBool(z3.And(zbool(x), zbool(y))))
        if isinstance(b, A.SArr):
            return b._ew(a, lambda x, y: SBool(z3.And(zbool(x), zbool(y))))
        if _anysym(a, b):
            return SBool(z3.And(zbool(a), zbool(b)))
        return _np.logical_and(a, b)

    def logical_or(self, a, b):
        if isinstance(a, A.SArr):
            return a._ew(b, lambda x, y: SBool(z3.Or(zbool(x), zbool(y))))
        if isinstance(b, A.SArr):
            return b._ew(a, lambda x, y: SBool(z3.Or(zbool(x), zbool(y))))
        if _anysym(a, b):
            return SBool(z3.Or(zbool(a), zbool(b)))
        return _np.logical_or(a, b)

    def where(self, c, a=None, b=None):
        if a is None:
            if isinstance(c, A.SArr):
                return c.nonzero()
            return _np.where(c)
        if isinstance(c, A.SArr):
            ca = c.snapshot()
            ak = a.kind if isinstance(a, A.SArr) else A.kind_of_value(a)
            bk = b.kind if isinstance(b, A.SArr) else A.kind_of_value(b)
            k = A.promote(ak, bk)
            fa = a.snapshot() if isinstance(a, A.SArr) else None
            fb = b.snapshot() if isinstance(b, A.SArr) else None

            def fn(i):
                va = k.lift(ak.wrap(fa(i))) if fa else k.lift(a)
                vb = k.lift(bk.wrap(fb(i))) if fb else k.lift(b)
                return z3.If(ca(i), va, vb)
            return A.SArr.from_fn(k, c.n, fn)
        return _np.where(c, a, b)

    def roll(self, x, shift):
        if isinstance(x, A.SArr):
            if shift not in (1, -1):
                raise Unsupported("roll by %r" % (shift,))
            src = x.snapshot()
            n = x.n
            if shift == -1:
                return A.SArr.from_fn(x.kind, n, lambda i: src(z3.If(i == n - 1, z3.IntVal(0), i + 1)))
            return A.SArr.from_fn(x.kind, n, lambda i: src(z3.If(i == 0, n - 1, i - 1)))
        return _np.roll(x, shift)

    def sqrt(self, x):
        """T-sqrt: uninterpreted SQRT with  x >= 0 => SQRT(x) >= 0,  (SQRT(x) > 0 <=> x > 0)"""
        if isinstance(x, A.SArr):
            return x._ew(0, lambda a, b: self.sqrt(a))
        if isinstance(x, (SReal, SInt)):
            eng().assumptions_used.add("T-sqrt: SQRT uninterpreted with sign axioms (x>=0 => SQRT(x)>=0, SQRT(x)>0 <=> x>0)")
            xz = to_real(x).z
            f = sqrt_uf()
            r = f(xz)
            if not eng().in_spec:
                pass
            eng().pc.append(z3.Implies(xz >= 0, z3.And(r >= 0, (r > 0) == (xz > 0))))
            return SReal(r)
        return _np.sqrt(x)

    def std(self, x, *a, **k):
        if isinstance(x, A.SArr):
            eng().assumptions_used.add("T-std: numpy.std(a) is some non-negative real (STD uninterpreted)")
            f = z3.Function("STD", z3.ArraySort(z3.IntSort(), z3.RealSort()), z3.IntSort(), z3.RealSort())
            r = f(x.term(), x.n)
            eng().pc.append(r >= 0)
            return SReal(r)
        return _np.std(x, *a, **k)

    def maximum(self, a, b):
        if _anysym(a, b):
            arr = a if isinstance(a, A.SArr) else b
            other = b if arr is a else a
            if isinstance(arr, A.SArr):
                return arr._ew(other, lambda x, y: ite(x >= y, x, y))
            return ite(a >= b, a, b)
        return _np.maximum(a, b)

    def minimum(self, a, b):
        if _anysym(a, b):
            arr = a if isinstance(a, A.SArr) else b
            other = b if arr is a else a
            if isinstance(arr, A.SArr):
                return arr._ew(other, lambda x, y: ite(x <= y, x, y))
            return ite(a <= b, a, b)
        return _np.minimum(a, b)

    def sum(self, x, axis=None):
        if isinstance(x, A.SArr):
            return x.sum()
        return _np.sum(x, axis=axis)

    def any(self, x):
        return x.any() if isinstance(x, A.SArr) else _np.any(x)

    def all(self, x):
        return x.all() if isinstance(x, A.SArr) else _np.all(x)

    def isfinite(self, x):
        # A1: floats are reals, always finite
        if isinstance(x, A.SArr):
            return A.SArr.const(A.BOOL, x.n, True)
        if _sym(x):
            return SBool(True)
        return _np.isfinite(x)

    def recarray(self, shape, dtype=None):
        n = _shape1(shape, force=getattr(self, "force_symbolic", False))
        if n is None:
            return _np.recarray(shape, dtype=dtype)
        return SRec(n, dtype)


def _shape1(shape, force=False):
    if isinstance(shape, tuple):
        if len(shape) != 1:
            if _anysym(shape):
                raise Unsupported("symbolic n-d shape %r" % (shape,))
            return None
        shape = shape[0]
    if isinstance(shape, (SInt, SBV)):
        return A._zi(shape)
    if force:
        return z3.IntVal(int(shape))
    return None


class SRec:
    """np.recarray stand-in: named columns of declared dtypes (assignment casts like numpy)."""
    _pyvc_symbolic = True

    def __init__(self, n, dtype):
        object.__setattr__(self, "_n", n)
        object.__setattr__(self, "_fields", {})
        object.__setattr__(self, "_dtypes", {name: dt for name, dt in dtype})

    @property
    def shape(self):
        return (A._mk_int(self._n),)

    def _store(self, name, value):
        dt = self._dtypes[name]
        if isinstance(dt, str) and dt.startswith("U"):
            width = int(dt[1:])
            if not isinstance(value, list):
                raise Unsupported("string column assigned from %r" % (type(value),))
            from .proxies import FMT_TOKENS
            import re as _re
            for sv in value:
                ln = z3.IntVal(0)
                for part in _re.split("(\x00\\d+\x00)", sv):
                    if part in FMT_TOKENS:
                        v = FMT_TOKENS[part][0]
                        vz = v.z if isinstance(v, SInt) else v.as_int().z
                        digits = z3.IntVal(20)
                        for k in range(19, 0, -1):
                            digits = z3.If(vz < 10 ** k, z3.IntVal(k), digits)
                        ln = ln + z3.If(vz < 0, digits + 1, digits)
                    else:
                        ln = ln + len(part)
                eng().prove("safety:string-width", ln <= width, "formatted text must fit the fixed-width U%d column (numpy truncates silently)" % width)
            self._fields[name] = ("U", width, value)
            return
        k = A.kind_from_dtype(dt)
        if isinstance(value, A.SArr):
            if not eng().decide(value.n == self._n):
                raise ValueError("could not broadcast input array")
            self._fields[name] = value.astype(k)
        else:
            raise Unsupported("record column assigned from %r" % (type(value),))

    def __setattr__(self, name, value):
        if name in self._dtypes:
            self._store(name, value)
        else:
            object.__setattr__(self, name, value)

    def __getattr__(self, name):
        f = object.__getattribute__(self, "_fields")
        if name in f:
            return f[name]
        raise AttributeError(name)

    def __setitem__(self, name, value):
        if name not in self._dtypes:
            raise ValueError("no field of name " + str(name))
        self._store(name, value)

    def __getitem__(self, name):
        return self._fields[name]


# ---------------------------------------------------------------------------
def make_importer(np_shim, shims):
    def imp(module, name):
        key = module if name is None else module + ":" + name
        if key in shims:
            return shims[key]
        if module == "numpy" or module.startswith("numpy."):
            if name is None:
                return np_shim
            if module == "numpy":
                return getattr(np_shim, name)
        mod = importlib.import_module(module)
        return mod if name is None else getattr(mod, name)
    return imp
