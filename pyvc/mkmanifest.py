import json, sys
sys.path.insert(0, '/verif')
props = [json.loads(l) for l in open('/verif/properties.jsonl')]
claims = json.load(open('/verif/claims.json'))
checks = []
na = []
for p in props:
    pid = p['id']
    c = claims.get(pid)
    if c and c.get('claimed'):
        checks.append(dict(
            property_id=pid,
            quick_cmd="./check %s --tier quick" % pid,
            thorough_cmd="./check %s --tier thorough" % pid,
            evidence_file="evidence/%s.json" % pid,
            replay_cmd_template="./check %s --replay {path}" % pid,
            engine="pyvc",
            level_claimed=dict(category=c.get('category', 'proof'), text=c['text'], design_ref=c.get('design_ref', 'DESIGN.md section 3 (%s)' % pid)),
            level_note=c['note'],
            technique=c.get('technique', 'contract-based deductive verification: VCs from the real AST (loop cutting at invariants, native symbolic execution), discharged by z3')))
    else:
        na.append(dict(property_id=pid, reason=(c or {}).get('reason', 'not yet built in this session (see DESIGN.md section 5 build order)')))
m = dict(version=1, setup_cmd="./setup.sh",
         hooks=dict(guard="PYDL_VERIF", enable="none needed: contracts are sidecar files in /verif/contracts, /repo is not instrumented",
                    baseline_off_cmd="cd /repo && /venv/bin/python -m pytest -ra -q -p no:cacheprovider --timeout=900 --continue-on-collection-errors",
                    source_commits=claims.get('_source_commits', []), add_only=True),
         engines=[dict(name="pyvc", path="pyvc/", serves_properties=[c['property_id'] for c in checks],
                       kind_free_text="self-built deductive verifier for Python/numpy: re-reads the real AST from /repo, cuts loops at contract invariants, executes the rewritten function natively on symbolic proxies under a forking driver, emits named obligations discharged by z3; counterexamples replayed on the real function")],
         checks=checks, not_applicable=na,
         notes="Contracts: /verif/contracts/cXX.py. Known findings: /verif/known_findings.jsonl. See DESIGN.md.")
json.dump(m, open('/verif/MANIFEST.json', 'w'), indent=1)
print(len(checks), 'claimed', len(na), 'n/a')
