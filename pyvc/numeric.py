"""Bounded numerical stand-in jobs: the real function is run on generated inputs and compared with an independent
reference implementation; one named obligation per clause.  Never counted as proved (level B)."""
from pyvc.harness import JobResult


class NumericJob:
    prop = None
    level = "B"
    KINDS = ()

    def _cases(self, rng, n):
        raise NotImplementedError

    def _check(self, c):
        raise NotImplementedError

    def run_job(self, tier, seed, exclusions):
        import random
        import time
        import traceback
        t0 = time.time()
        res = JobResult(job=self.name, target=self.target, level="B", prop=self.prop, obligations=[], failures=[], crashed=None, bound=self.bound,
                        paths=0, solver_s=0.0, queries=0, native_runs=0, native_failures=[], vacuity=None,
                        assumptions=["numerical comparison with an independent reference implementation on generated inputs only"])
        fails = {}
        n = 0
        try:
            rng = random.Random(seed * 29 + 11)
            for c in self._cases(rng, self.NQ if tier == "quick" else self.NT):
                n += 1
                try:
                    for kind, msg in self._check(c):
                        fails.setdefault(kind, []).append((msg, c["inp"]))
                except Exception as e:
                    fails.setdefault("no_unexpected_exception", []).append(("%s: %s" % (type(e).__name__, str(e)[:150]), c["inp"]))
            res["paths"] = res["native_runs"] = n
            for kd in self.KINDS + ("no_unexpected_exception",):
                b = fails.get(kd, [])
                d = dict(name=self.name + ":" + kd, path=0, status="unsat" if not b else "sat", secs=0.0, backend="native-numeric", size=0, note="" if not b else b[0][0])
                if b:
                    d.update(inputs=dict(clause=kd, seed=seed, **b[0][1]), model=str(b[:2])[:1000], reason="")
                res["obligations"].append(d)
            res["vacuity"] = dict(cases=n)
        except Exception:
            res["crashed"] = traceback.format_exc()
        res["wall_s"] = time.time() - t0
        return res

    def native_replay(self, inputs):
        import random
        rng = random.Random(int(inputs.get("seed", 0)) * 29 + 11)
        last = None
        for c in self._cases(rng, int(inputs["rep"]) + 1):
            last = c
        try:
            bad = self._check(last)
        except Exception as e:
            bad = [("no_unexpected_exception", "%s: %s" % (type(e).__name__, e))]
        return (not bad, "case %s: %s" % (last["inp"], bad[:2]))
