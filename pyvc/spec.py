"""Spec helpers usable in BOTH interpretations of a contract clause:

 * symbolic  (arguments are proxies / SArr): builds z3 terms, quantifiers stay quantifiers;
 * native    (arguments are Python / numpy values): evaluated by CPython, used for the replay of
   counterexamples on the real function and for the run-time cross-check of contracts.

One text, two interpretations: the clause evaluated on a replayed counterexample is the clause
whose obligation failed.
"""
import z3
import numpy as _np
from .engine import eng
from .proxies import SBool, SInt, SReal, SBV, zbool, _pair, _wrap, _num
from . import arrays as A

TOL = 1e-9


def is_sym(*xs):
    for x in xs:
        if isinstance(x, (SBool, SInt, SReal, SBV, A.SArr, A.SArr2)) or hasattr(x, "_pyvc_symbolic"):
            return True
    return False


def implies(a, b):
    if is_sym(a, b):
        return SBool(z3.Implies(zbool(a), zbool(b)))
    return (not a) or bool(b)


def AND(*xs):
    if is_sym(*xs):
        return SBool(z3.And(*[zbool(x) for x in xs]))
    return all(bool(x) for x in xs)


def OR(*xs):
    if is_sym(*xs):
        return SBool(z3.Or(*[zbool(x) for x in xs]))
    return any(bool(x) for x in xs)


def NOT(x):
    if is_sym(x):
        return SBool(z3.Not(zbool(x)))
    return not x


def iff(a, b):
    if is_sym(a, b):
        return SBool(zbool(a) == zbool(b))
    return bool(a) == bool(b)


def ite(c, a, b):
    if is_sym(c, a, b):
        if isinstance(a, (SBool, bool, _np.bool_)) and isinstance(b, (SBool, bool, _np.bool_)):
            return SBool(z3.If(zbool(c), zbool(a), zbool(b)))
        if isinstance(a, SBV) or isinstance(b, SBV):
            t = a if isinstance(a, SBV) else b
            za = a.z if isinstance(a, SBV) else z3.BitVecVal(int(a), t.bits)
            zb = b.z if isinstance(b, SBV) else z3.BitVecVal(int(b), t.bits)
            return SBV(z3.If(zbool(c), za, zb), t.bits, t.signed)
        za, zb, k = _pair(a, b)
        return _wrap(z3.If(zbool(c), za, zb), k)
    return a if c else b


def forall(lo, hi, body, patterns=None):
    """for all integers q with lo <= q < hi: body(q)"""
    if is_sym(lo, hi) or _symbolic_mode():
        q = z3.Int(eng().fresh_name("q"))
        zlo, zhi = A._zi(lo), A._zi(hi)
        b = zbool(body(SInt(q)))
        f = z3.Implies(z3.And(q >= zlo, q < zhi), b)
        if patterns is not None:
            pats = [_trigger(p if isinstance(p, z3.ExprRef) else p.z) for p in patterns(SInt(q))]
            pats = [p for p in pats if p is not None and _mentions(p, q)]
            if pats:
                try:
                    return SBool(z3.ForAll([q], f, patterns=pats))
                except z3.Z3Exception:
                    pass
        return SBool(z3.ForAll([q], f))
    return all(bool(body(j)) for j in range(int(lo), int(hi)))


def exists(lo, hi, body, witness=None):
    """exists q in [lo,hi). body(q).  `witness` (symbolic mode only) is a candidate term offered to the solver:
    Exists(...) or body(witness) -- logically equivalent to the plain Exists, a proof hint only."""
    if is_sym(lo, hi) or _symbolic_mode():
        q = z3.Int(eng().fresh_name("q"))
        zlo, zhi = A._zi(lo), A._zi(hi)
        ex = z3.Exists([q], z3.And(q >= zlo, q < zhi, zbool(body(SInt(q)))))
        if witness is not None:
            w = A._zi(witness)
            return SBool(z3.Or(ex, z3.And(w >= zlo, w < zhi, zbool(body(SInt(w))))))
        return SBool(ex)
    return any(bool(body(j)) for j in range(int(lo), int(hi)))


def rank_witness(arr, pos):
    """proof hint: if `arr` enumerates the true positions of a mask (nonzero model), the rank of `pos`"""
    rk = getattr(arr, "_rank", None)
    if rk is None:
        return None
    return SInt(rk(A._zi(pos)))


def _trigger(t):
    """make a term usable as an E-matching trigger: select over a store chain -> select on the base array"""
    if z3.is_select(t):
        a, i = t.arg(0), t.arg(1)
        while z3.is_store(a):
            a = a.arg(0)
        if z3.is_quantifier(a):      # a Lambda: no useful trigger
            return None
        return z3.Select(a, i)
    if z3.is_app(t) and t.decl().kind() == z3.Z3_OP_UNINTERPRETED and t.num_args() > 0:
        return t
    return None              # interpreted / boolean structure cannot serve as a trigger


def _mentions(t, q):
    todo, seen = [t], set()
    while todo:
        x = todo.pop()
        if x.get_id() in seen:
            continue
        seen.add(x.get_id())
        if x.eq(q):
            return True
        if z3.is_app(x):
            todo.extend(x.children())
    return False


_MODE = ["native"]


def _symbolic_mode():
    return _MODE[0] == "symbolic"


class symbolic_mode:
    def __enter__(self):
        self.prev = _MODE[0]
        _MODE[0] = "symbolic"

    def __exit__(self, *a):
        _MODE[0] = self.prev


def el(a, j):
    """a[j] without bounds obligation (spec level)"""
    if isinstance(a, A.SArr):
        return a.kind.wrap(a.at(A._zi(j)))
    j = int(j)
    if j < 0 or j >= len(a):
        return float("nan")      # spec-level "don't care": only reachable under a false guard (both ite branches are evaluated natively)
    return a[j]


def el2(a, i, j):
    """a[i, j] of a 2-D array without bounds obligation (spec level)"""
    if isinstance(a, A.SArr2):
        return a.kind.wrap(a.at(i, j))
    i, j = int(i), int(j)
    if i < 0 or j < 0 or i >= a.shape[0] or j >= a.shape[1]:
        return float("nan")
    return a[i, j]


def shape2(a):
    if isinstance(a, A.SArr2):
        return a.shape
    return tuple(int(v) for v in a.shape)


def size(a):
    if isinstance(a, A.SArr):
        return a.slen()
    return len(a)


def SUM(a, lo, hi):
    """sum of a[lo..hi-1]"""
    if isinstance(a, A.SArr):
        k = a.kind
        return k.wrap(z3.simplify(A.SUMF(k)(a.term(), a.off + A._zi(lo), a.off + A._zi(hi))))
    return a[int(lo):int(hi)].sum() if int(hi) > int(lo) else 0.0


def eq(a, b):
    """equality; in native mode floats are compared to a relative tolerance (A1: floats as reals)"""
    if is_sym(a, b):
        r = (a == b)
        return r if isinstance(r, SBool) else SBool(zbool(r))
    if isinstance(a, (float, _np.floating)) or isinstance(b, (float, _np.floating)):
        tol = 4e-6 if (isinstance(a, _np.float32) or isinstance(b, _np.float32)) else TOL
        a, b = float(a), float(b)
        if a == b:
            return True
        return abs(a - b) <= tol * max(1.0, abs(a), abs(b))
    return a == b


def real(x):
    from .proxies import to_real
    return to_real(x)


def sum_axioms(a, points_lo_hi):
    """ground instances of the SUM definition, supplied by contracts as lemmas:
    SUM(A,l,l)=0 and SUM(A,l,h+1)=SUM(A,l,h)+A[h] for the given (l,h)."""
    out = []
    k = a.kind
    S = A.SUMF(k)
    T = a.term()
    zero = z3.RealVal(0) if k == A.REAL else z3.IntVal(0)
    for (l, h) in points_lo_hi:
        zl, zh = a.off + A._zi(l), a.off + A._zi(h)
        out.append(S(T, zl, zl) == zero)
        out.append(z3.Implies(zh >= zl, S(T, zl, zh + 1) == S(T, zl, zh) + z3.Select(T, zh)))
    return out


def sqrt(x):
    """square root (symbolic: the uninterpreted SQRT of the numpy shim, same axioms; native: math.sqrt)"""
    if is_sym(x):
        from .npshim import sqrt_uf
        from .proxies import to_real
        xz = to_real(x).z
        r = sqrt_uf()(xz)
        eng().pc.append(z3.Implies(xz >= 0, z3.And(r >= 0, (r > 0) == (xz > 0))))
        return SReal(r)
    import math
    return math.sqrt(x)


def absval(x):
    return abs(x)


def close(a, b, rel=1e-12):
    """|a - b| <= rel * |b| : equality up to the rounding of CONCRETE float constants computed by CPython
    (A1 treats symbolic arithmetic as exact, but a constant like 1.0/k**2 evaluated natively is already rounded)"""
    if is_sym(a, b):
        from .proxies import to_real
        d = to_real(a) - to_real(b)
        m = to_real(b)
        import fractions
        r = fractions.Fraction(rel).limit_denominator(10 ** 18)
        bound = ite(m >= 0, m, -m) * SReal(z3.RealVal(str(r)))
        return AND(d <= bound, d >= -bound)
    a, b = float(a), float(b)
    return abs(a - b) <= max(rel, 1e-9) * max(abs(b), 1e-300)
