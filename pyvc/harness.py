"""Function contracts, job runner, replay and reporting."""
import importlib
import json
import os
import random
import sys
import time
import traceback
import hashlib

import numpy as np
import z3

from .engine import Engine, PathStop, Infeasible, Unsupported, spec_eval
from .proxies import SBool, SInt, SReal, SBV, zbool
from . import arrays as A
from . import spec as S
from . import amode

VERIF = os.path.dirname(os.path.dirname(os.path.abspath(__file__)))
REGISTRY = {}      # property id -> list of contract classes / job callables


def register(prop):
    def deco(cls):
        cls.prop = prop
        REGISTRY.setdefault(prop, []).append(cls)
        return cls
    return deco


# ---------------------------------------------------------------------------
# concretisation of models
# ---------------------------------------------------------------------------
MAXLEN = 40


class CannotConcretize(Exception):
    pass


def _ev(model, zz):
    return model.eval(zz, model_completion=True)


def concretize(v, model):
    if isinstance(v, SBool):
        return bool(z3.is_true(_ev(model, v.z)))
    if isinstance(v, SInt):
        r = _ev(model, v.z)
        if not z3.is_int_value(r):
            raise CannotConcretize(str(r))
        return r.as_long()
    if isinstance(v, SReal):
        r = _ev(model, v.z)
        if z3.is_rational_value(r):
            return float(r.as_fraction())
        if z3.is_algebraic_value(r):
            return float(r.approx(20).as_fraction())
        raise CannotConcretize(str(r))
    if isinstance(v, SBV):
        r = _ev(model, v.z)
        val = r.as_signed_long() if v.signed else r.as_long()
        from .proxies import SPyInt
        if isinstance(v, SPyInt):
            return int(val)
        return getattr(np, v.dtype_name)(val)
    if isinstance(v, np.ndarray) and v.dtype == object:
        flat = [concretize(x, model) for x in v.flat]
        try:
            return np.array(flat).reshape(v.shape)
        except Exception:
            return np.array(flat, dtype=object).reshape(v.shape)
    if isinstance(v, A.SArr2):
        R, C = _ev(model, v.R), _ev(model, v.C)
        if not (z3.is_int_value(R) and z3.is_int_value(C)) or not (0 <= R.as_long() <= 12 and 0 <= C.as_long() <= 12):
            raise CannotConcretize("2-D shape %s x %s" % (R, C))
        R, C = R.as_long(), C.as_long()
        dt = {"int": np.int64, "real": np.float64, "bool": bool}.get(v.kind.name, None) or getattr(np, v.kind.name)
        out = np.zeros((R, C), dtype=dt)
        for i in range(R):
            for j in range(C):
                out[i, j] = concretize(v.kind.wrap(v.at(i, j)), model)
        return out
    if isinstance(v, A.SArr):
        n = _ev(model, v.n)
        if not z3.is_int_value(n) or n.as_long() > MAXLEN or n.as_long() < 0:
            raise CannotConcretize("array length %s" % n)
        n = n.as_long()
        items = [concretize(v.kind.wrap(v.at(z3.IntVal(j))), model) for j in range(n)]
        dt = {"int": np.int64, "real": np.float64, "bool": bool}.get(v.kind.name, None) or getattr(np, v.kind.name)
        return np.array(items, dtype=dt)
    if hasattr(v, "concretize"):
        return v.concretize(model)
    if isinstance(v, (list, tuple)):
        return type(v)(concretize(x, model) for x in v)
    if isinstance(v, dict):
        return {k: concretize(x, model) for k, x in v.items()}
    return v


def jsonable(v):
    if isinstance(v, np.ndarray):
        return {"ndarray": v.tolist(), "dtype": str(v.dtype)}
    if isinstance(v, (np.integer,)):
        return {"npint": int(v), "dtype": str(v.dtype)}
    if isinstance(v, (np.floating,)):
        return float(v)
    if isinstance(v, (np.bool_,)):
        return bool(v)
    if isinstance(v, dict):
        return {str(k): jsonable(x) for k, x in v.items()}
    if isinstance(v, (list, tuple)):
        return [jsonable(x) for x in v]
    if isinstance(v, (int, float, str, bool)) or v is None:
        return v
    return repr(v)


def unjson(v):
    if isinstance(v, dict) and "ndarray" in v:
        return np.array(v["ndarray"], dtype=v["dtype"])
    if isinstance(v, dict) and "npint" in v:
        return np.dtype(v["dtype"]).type(v["npint"])
    if isinstance(v, dict):
        return {k: unjson(x) for k, x in v.items()}
    if isinstance(v, list):
        return [unjson(x) for x in v]
    return v


# ---------------------------------------------------------------------------
# function contracts
# ---------------------------------------------------------------------------
class FunctionContract:
    """Sidecar contract of one real function.  Subclasses define:
        target   'pkg.module:func' | 'pkg.module:Class.method'
        level    'P' (all sizes) | 'C' (complete, no size parameter / element-generic) | 'B' (bounded stand-in)
        inputs() -> dict name -> symbolic value        (called inside a path)
        requires(**a) -> bool-like                      (dual: symbolic and native)
        ensures(result, **a) -> {clause: bool-like}     (dual)
        raises(exc, **a) -> {clause: bool-like} | None  (dual; None = no exception is allowed)
        call(fn, **a) -> result                         (how the function is invoked; same for native)
        loops    {ordinal: dict(inv=...)}
        samples(rng) -> iterator of native argument dicts (run-time cross-check + bounded search)
    """
    prop = None
    name = None
    target = None
    level = "P"
    bound = None
    loops = {}
    int_mode = "math"
    assumptions = ()
    max_paths = 4000
    rlimit = None
    expect_loops = None       # structural fingerprint: number of loops in the function
    force_symbolic = False
    nl_mode = "nra"
    budget_s = 600
    job_budget_s = 900
    wall_ms = None

    def shims(self):
        return {}

    def extra_globals(self):
        return {}

    def loop_specs(self, a):
        return self.loops

    def requires(self, **a):
        return True

    def raises(self, exc, **a):
        return None

    def call(self, fn, **a):
        return fn(**a)

    def native_fn(self):
        modname, path = self.target.split(":")
        mod = importlib.import_module(modname)
        obj = mod
        for part in path.split("."):
            obj = getattr(obj, part)
        return obj

    def samples(self, rng):
        return iter(())

    case = None

    def cases(self, tier):
        """bounded jobs: list of case parameters (shapes); each is explored separately, self.case is set"""
        return [None]

    def case_label(self):
        return "" if self.case is None else "[%s]" % (self.case,)

    def exclusions(self, **a):
        """extra preconditions from known findings (set by the runner)"""
        return []


class JobResult(dict):
    pass


def _exc_sig(e):
    return "%s: %s" % (type(e).__name__, e)


def run_contract(cls, tier="quick", seed=0, exclusions=None):
    """Runs one function contract: symbolic exploration + native cross-check.  Picklable result."""
    t0 = time.time()
    fc = cls()
    res = JobResult(job=fc.name, target=fc.target, level=fc.level, bound=fc.bound, prop=fc.prop,
                    obligations=[], failures=[], crashed=None, paths=0, solver_s=0.0, queries=0,
                    assumptions=list(fc.assumptions), native_runs=0, native_failures=[], vacuity=None)
    cases = fc.cases(tier)
    job_budget = fc.job_budget_s * (2 if tier == "thorough" else 1)
    for ncase, case in enumerate(cases):
        fc.case = case
        if time.time() - t0 > job_budget:
            if fc.level == "B":
                # a bounded stand-in may stop early: what was explored is reported, nothing beyond it is claimed
                res["truncated"] = "explored the first %d of %d enumerated cases within the job budget of %d s" % (ncase, len(cases), job_budget)
                res["bound"] = "%s; %s" % (res.get("bound") or "", res["truncated"])
            else:
                res["crashed"] = "job budget of %d s exhausted before case %s" % (job_budget, case)
            break
        try:
            _run_symbolic(fc, res, tier, exclusions or [])
        except Unsupported as e:
            if fc.level == "B" and "exploration budget" in str(e):
                # bounded stand-in: the case that did not finish within the exploration budget is dropped and said so; nothing is claimed for it
                res["truncated"] = "case %s not finished (%s); %d of %d enumerated cases explored" % (case, e, ncase, len(cases))
                res["bound"] = "%s; %s" % (res.get("bound") or "", res["truncated"])
                break
            res["crashed"] = "Unsupported: %s%s" % (e, "" if case is None else " [case %s]" % (case,))
        except Exception:
            res["crashed"] = traceback.format_exc()
        if res["crashed"]:
            break
    fc.case = None
    res["cases"] = len(cases)
    try:
        _run_native(fc, res, tier, seed, exclusions or [])
    except Exception:
        res["crashed"] = (res["crashed"] or "") + "\nnative cross-check crashed:\n" + traceback.format_exc()
    res["wall_s"] = time.time() - t0
    return res


def _excl_pred(exclusions, a, native, fc=None):
    """conjunction of NOT(excluded_when) over active known findings"""
    preds = []
    for ex in exclusions:
        env = dict(S.__dict__)
        if fc is not None:
            env.update({k: v for k, v in vars(sys.modules[type(fc).__module__]).items() if not k.startswith("__")})
        env.update(a)
        env["np"] = np
        preds.append(S.NOT(eval(ex["excluded_when"], env)))
    return preds


def _run_symbolic(fc, res, tier, exclusions):
    E = Engine(fc.name, max_paths=fc.max_paths)
    if fc.rlimit:
        E.rlimit = fc.rlimit
    E.nl_mode = fc.nl_mode
    for _opt in ("fb_limit", "fb_first", "cvc5_tlimit_ms"):
        if getattr(fc, _opt, None) is not None:
            setattr(E, _opt, getattr(fc, _opt))
    E.budget_s = fc.budget_s
    if fc.wall_ms:
        E.wall_ms = fc.wall_ms
    Engine.current = E
    holder = {}

    def thunk():
        with S.symbolic_mode():
            a = fc.inputs()
            holder["a"] = a
            with spec_eval():
                E.assume(zbool(fc.requires(**a)))
                for p in _excl_pred(exclusions, a, False, fc):
                    E.assume(zbool(p))
                specs = fc.loop_specs(a)
            if not E.feasible():
                raise Infeasible()
            L = amode.load(fc.target, loops=specs, shims=fc.shims(), extra_globals=fc.extra_globals(),
                           int_mode=fc.int_mode)
            if fc.force_symbolic:
                L.ns["np"].force_symbolic = True
            if getattr(fc, "nmode", False):
                L.ns["np"].nmode = True
            if getattr(fc, "scalar_ctors", False):
                L.ns["np"].enable_scalar_ctors()
            holder["L"] = L
            if fc.expect_loops is not None and L.n_loops != fc.expect_loops and specs:
                # loop contracts are keyed by ordinal: a changed loop structure invalidates the keying.
                # (functions without loop contracts may gain or lose natively executed loops freely)
                E.fail("%s:structure.loops" % fc.name, "function has %d loops, contract was written for %d: %r"
                       % (L.n_loops, fc.expect_loops, L.loop_headers))
            return fc.call(L.fn, **a)

    def on_path(p):
        a = holder["a"]
        with S.symbolic_mode(), spec_eval():
            if p.kind == "return":
                cl = fc.ensures(p.value, **a)
                for cname, c in cl.items():
                    ob = E.prove("%s:post.%s%s" % (fc.name, cname, fc.case_label()), zbool(c), assume_after=False)
                    _attach(ob, fc, a, E)
            else:
                exc = p.value
                allowed = fc.raises(exc, **a)
                if allowed is None:
                    tb = traceback.extract_tb(exc.__traceback__)
                    where = ""
                    for fr in reversed(tb):
                        if (os.environ.get("VERIF_REPO", "/repo").rstrip("/") + "/") in fr.filename:
                            where = " at %s:%d" % (os.path.basename(fr.filename), fr.lineno)
                            break
                    ob = E.fail("%s:noraise" % fc.name, "unexpected %s%s on a feasible path" % (_exc_sig(exc), where))
                    _attach(ob, fc, a, E)
                else:
                    for cname, c in allowed.items():
                        ob = E.prove("%s:raises.%s" % (fc.name, cname), zbool(c), assume_after=False)
                        _attach(ob, fc, a, E)

    try:
        paths = E.explore(thunk, on_path)
    except Unsupported:
        _collect(fc, res, E, holder, E.paths)
        raise
    _collect(fc, res, E, holder, paths)


def _collect(fc, res, E, holder, paths):
    # attach inputs for in-body obligations (models were taken at the failing point)
    a = holder.get("a")
    for ob in E.obligations:
        if ob.status != "unsat" and not hasattr(ob, "_done"):
            _attach(ob, fc, a, E)
    res["paths"] = res.get("paths", 0) + len(paths)
    res["path_kinds"] = res.get("path_kinds") or {}
    for p in paths:
        key = p.kind if p.kind != "raise" else "raise:" + type(p.value).__name__
        res["path_kinds"][key] = res["path_kinds"].get(key, 0) + 1
    res["solver_s"] = res.get("solver_s", 0.0) + E.solver_s
    res["queries"] = res.get("queries", 0) + E.queries
    res["assumptions"] = sorted(set(res["assumptions"]) | E.assumptions_used)
    L = holder.get("L")
    if L is not None:
        res["rewritten_source"] = L.rewritten_source
        res["loops_cut"] = sorted(L.info.keys())
        res["n_loops"] = L.n_loops
        res["source_sha"] = hashlib.sha1(L.rewritten_source.encode()).hexdigest()[:12]
    n_ret = sum(1 for p in paths if p.kind in ("return", "raise"))
    res["vacuity"] = dict(terminal_paths=n_ret)
    if n_ret == 0:
        res["crashed"] = "vacuous: no feasible terminal path (contradictory requires?)"
    for ob in E.obligations:
        d = ob.as_dict()
        if ob.status != "unsat":
            d["reason"] = ob.reason
            d["inputs"] = getattr(ob, "_inputs", None)
            d["model"] = getattr(ob, "_model_txt", None)
        res["obligations"].append(d)


def _attach(ob, fc, a, E):
    ob._done = True
    if ob.status == "unsat" or ob.model is None or a is None:
        return
    try:
        ob._model_txt = str(ob.model)[:4000]
        ob._inputs = jsonable({k: concretize(v, ob.model) for k, v in a.items()})
    except Exception as e:
        ob._inputs = None
        ob._model_txt = (getattr(ob, "_model_txt", "") or "") + "\n(concretisation failed: %s)" % e


def native_eval(fc, a, exclusions=()):
    """Run the REAL function on native arguments and evaluate the contract natively.
    Returns None if requires is false, else (ok, detail)."""
    a = {k: (v.copy() if isinstance(v, np.ndarray) else v) for k, v in a.items()}
    try:
        if not S.AND(fc.requires(**a)):
            return None
        for p in _excl_pred(exclusions, a, True, fc):
            if not p:
                return None
    except Exception as e:
        return None
    fn = fc.native_fn()
    call_a = {k: (v.copy() if isinstance(v, np.ndarray) else v) for k, v in a.items()}
    try:
        import warnings
        with warnings.catch_warnings():
            warnings.simplefilter("ignore")
            result = fc.call(fn, **call_a)
    except Exception as exc:
        allowed = fc.raises(exc, **a)
        if allowed is None:
            return (False, "raised %s" % _exc_sig(exc))
        bad = [k for k, c in allowed.items() if not c]
        return (not bad, "raised %s; clauses false: %s" % (_exc_sig(exc), bad))
    try:
        cl = fc.ensures(result, **a)
        bad = [k for k, c in cl.items() if not S.AND(c)]
    except Exception as exc:
        return (False, "clause evaluation failed on result %r: %s" % (result, _exc_sig(exc)))
    return (not bad, "result=%s; clauses false: %s" % (_short(result), bad))


def _short(x):
    s = repr(x)
    return s if len(s) < 300 else s[:300] + "..."


def _run_native(fc, res, tier, seed, exclusions):
    rng = random.Random(seed * 7919 + 13)
    budget = 400 if tier == "quick" else 4000
    n = 0
    for a in fc.samples(rng):
        if n >= budget:
            break
        r = native_eval(fc, a, exclusions)
        if r is None:
            continue
        n += 1
        ok, detail = r
        if not ok and len(res["native_failures"]) < 5:
            res["native_failures"].append(dict(inputs=jsonable(a), detail=detail))
    res["native_runs"] = n


class LemmaJob:
    """Lemmas over contracts (no code): each lemma is a closed z3 formula proved valid.
    Subclasses define name, prop, lemmas() -> dict name -> callable() -> z3 BoolRef / SBool."""
    name = None
    target = "(lemma over contracts)"
    level = "P"
    assumptions = ()
    nl_mode = "nra"

    def run_job(self, tier, seed, exclusions):
        t0 = time.time()
        res = JobResult(job=self.name, target=self.target, level=self.level, bound=None, prop=self.prop,
                        obligations=[], failures=[], crashed=None, paths=0, solver_s=0.0, queries=0,
                        assumptions=list(self.assumptions), native_runs=0, native_failures=[], vacuity=None)
        try:
            for lname, build in self.lemmas().items():
                E = Engine(self.name)
                E.nl_mode = self.nl_mode
                Engine.current = E
                E._reset_path([])
                with S.symbolic_mode(), spec_eval():
                    f = build()
                ob = E.prove("%s:lemma.%s" % (self.name, lname), zbool(f), assume_after=False)
                d = ob.as_dict()
                if ob.status != "unsat":
                    d["reason"] = ob.reason
                    d["model"] = str(ob.model)[:3000] if ob.model is not None else None
                    d["inputs"] = None
                res["obligations"].append(d)
                res["solver_s"] += E.solver_s
                res["queries"] += E.queries
                res["paths"] += 1
        except Exception:
            res["crashed"] = traceback.format_exc()
        res["wall_s"] = time.time() - t0
        return res
