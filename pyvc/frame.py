"""Frame mode: effect analysis of the REAL AST with exceptional control flow (DESIGN 2.3).

Only the ghost state of interest is tracked -- the process environment (`os.environ`) -- every
other value is opaque.  Fault model = the property's: *every* statement that contains a call,
subscript, attribute access or operator may raise an arbitrary `Exception` at that point (for all
such points, along all paths); environment reads raise KeyError exactly when the variable is absent.
try/except/else/finally, with, loops (fixpoint over the finite abstract domain), return/raise and
calls to same-module functions that (transitively) write the environment (inlined) are interpreted.

Obligation `env.restore`: at every exit of the entry point -- return, explicit raise, implicit
exceptional exit -- every environment variable written on the path has its entry value (or absence).
Obligation `env.writers`: an AST scan of the whole package finds environment writes only in the
functions analysed here, which justifies treating all other callees as environment-neutral.
"""
import ast
import builtins
import importlib
import os


ENV_WRITE_METHODS = {"pop", "update", "clear", "setdefault", "popitem", "__setitem__", "__delitem__"}
ENV_WRITE_FUNCS = {"putenv", "unsetenv"}


def is_environ(node):
    return isinstance(node, ast.Attribute) and node.attr == "environ" and isinstance(node.value, ast.Name) and node.value.id == "os"


def env_write_sites(tree):
    """(lineno, description) of every syntactic environment write in a module AST, with the enclosing function"""
    out = []

    class V(ast.NodeVisitor):
        def __init__(self):
            self.stack = []

        def visit_FunctionDef(self, n):
            self.stack.append(n.name)
            self.generic_visit(n)
            self.stack.pop()
        visit_AsyncFunctionDef = visit_FunctionDef

        def visit_ClassDef(self, n):
            self.stack.append(n.name)
            self.generic_visit(n)
            self.stack.pop()

        def _rec(self, n, what):
            out.append((".".join(self.stack) or "<module>", n.lineno, what))

        def visit_Assign(self, n):
            for t in n.targets:
                self._target(t, n)
            self.generic_visit(n)

        def visit_AugAssign(self, n):
            self._target(n.target, n)
            self.generic_visit(n)

        def _target(self, t, n):
            if isinstance(t, ast.Subscript) and is_environ(t.value):
                self._rec(n, "os.environ[...] = ...")
            elif is_environ(t):
                self._rec(n, "os.environ = ...")
            elif isinstance(t, (ast.Tuple, ast.List)):
                for e in t.elts:
                    self._target(e, n)

        def visit_Delete(self, n):
            for t in n.targets:
                if isinstance(t, ast.Subscript) and is_environ(t.value):
                    self._rec(n, "del os.environ[...]")
            self.generic_visit(n)

        def visit_Call(self, n):
            f = n.func
            if isinstance(f, ast.Attribute) and is_environ(f.value) and f.attr in ENV_WRITE_METHODS:
                self._rec(n, "os.environ.%s(...)" % f.attr)
            if isinstance(f, ast.Attribute) and isinstance(f.value, ast.Name) and f.value.id == "os" and f.attr in ENV_WRITE_FUNCS:
                self._rec(n, "os.%s(...)" % f.attr)
            self.generic_visit(n)
    V().visit(tree)
    return out


# ---------------------------------------------------------------------------
# abstract values:  ("opaque",) | ("const", v) | ("none",) | ("envorig", K) | ("dict", id) | ("tuple", (vals...))
# ---------------------------------------------------------------------------
OPAQUE = ("opaque",)
NONE = ("none",)


class State:
    __slots__ = ("env", "present", "loc", "heap", "_h")

    def __init__(self, env=None, present=None, loc=None, heap=None):
        self.env = dict(env or {})          # K -> "orig" | "deleted" | ("set", val)
        self.present = dict(present or {})  # K -> bool   (entry presence, decided lazily by forking)
        self.loc = dict(loc or {})          # (depth, name) -> val
        self.heap = dict(heap or {})        # (dictid, key) -> val
        self._h = None

    def copy(self):
        return State(self.env, self.present, self.loc, self.heap)

    def key(self):
        if self._h is None:
            self._h = (tuple(sorted(self.env.items(), key=repr)), tuple(sorted(self.present.items())),
                       tuple(sorted(self.loc.items(), key=repr)), tuple(sorted(self.heap.items(), key=repr)))
        return self._h

    def __hash__(self):
        return hash(self.key())

    def __eq__(self, o):
        return self.key() == o.key()

    def restored(self):
        """list of (K, why) for every variable that does not have its entry value"""
        bad = []
        for K, st in self.env.items():
            pres = self.present.get(K)
            if st == "orig":
                continue
            if st == "deleted":
                if pres is False:
                    continue
                bad.append((K, "deleted (was set on entry)"))
            else:
                val = st[1]
                if val == ("envorig", K) and pres is True:
                    continue
                bad.append((K, "left set to %s (entry state: %s)" % (_show(val), "set" if pres else "unset")))
        return bad


def _show(v):
    if v[0] == "const":
        return repr(v[1])
    if v[0] == "envorig":
        return "<entry value of %s>" % v[1]
    return "<%s>" % v[0]


class Outcome:
    __slots__ = ("kind", "state", "exc", "site", "value")

    def __init__(self, kind, state, exc=None, site=None, value=None):
        self.kind, self.state, self.exc, self.site, self.value = kind, state, exc, site, value

    def key(self):
        return (self.kind, self.state.key(), self.exc, self.site, self.value)


def dedupe(outs):
    seen, res = set(), []
    for o in outs:
        k = o.key()
        if k not in seen:
            seen.add(k)
            res.append(o)
    return res


class Unmodelled(Exception):
    pass


class Analyzer:
    def __init__(self, modname):
        self.mod = importlib.import_module(modname)
        self.modname = modname
        with open(self.mod.__file__) as f:
            self.src = f.read()
        self.tree = ast.parse(self.src)
        self.funcs = {n.name: n for n in self.tree.body if isinstance(n, ast.FunctionDef)}
        self.writers = self._writer_closure()
        self.problems = []          # unmodelled environment effects
        self.stats = dict(statements=0, may_raise_points=0, inlined_calls=0, fixpoints=0)
        self.depth = 0
        self.max_states = 20000

    def _writer_closure(self):
        direct = {fn for (fn, ln, what) in env_write_sites(self.tree)}
        direct = {d.split(".")[0] for d in direct}
        writers = set(d for d in direct if d in self.funcs)
        changed = True
        while changed:
            changed = False
            for name, fn in self.funcs.items():
                if name in writers:
                    continue
                for n in ast.walk(fn):
                    if isinstance(n, ast.Call) and isinstance(n.func, ast.Name) and n.func.id in writers:
                        writers.add(name)
                        changed = True
                        break
        return writers

    # ---- expression evaluation (pure, abstract) --------------------------
    def ev(self, node, st):
        d = self.depth
        if isinstance(node, ast.Constant):
            return NONE if node.value is None else ("const", node.value)
        if isinstance(node, ast.Name):
            return st.loc.get((d, node.id), OPAQUE)
        if isinstance(node, ast.Tuple) or isinstance(node, ast.List):
            vals = tuple(self.ev(e, st) for e in node.elts)
            if all(v[0] == "const" for v in vals):
                return ("const", tuple(v[1] for v in vals))
            return ("tuple", vals)
        if isinstance(node, ast.BinOp) and isinstance(node.op, ast.Add):
            a, b = self.ev(node.left, st), self.ev(node.right, st)
            if a[0] == "const" and b[0] == "const" and isinstance(a[1], str) and isinstance(b[1], str):
                return ("const", a[1] + b[1])
            return OPAQUE
        if isinstance(node, ast.Call) and isinstance(node.func, ast.Attribute) and not node.args and not node.keywords \
                and node.func.attr in ("upper", "lower", "strip"):
            v = self.ev(node.func.value, st)
            if v[0] == "const" and isinstance(v[1], str):
                return ("const", getattr(v[1], node.func.attr)())
            return OPAQUE
        if isinstance(node, ast.Subscript):
            base = self.ev(node.value, st)
            k = self.ev(node.slice, st)
            if base[0] == "dict" and k[0] == "const":
                return st.heap.get((base[1], k[1]), OPAQUE)
            if base[0] == "tuple" and k[0] == "const" and isinstance(k[1], int) and 0 <= k[1] < len(base[1]):
                return base[1][k[1]]
            return OPAQUE
        if isinstance(node, ast.Call) and isinstance(node.func, ast.Name) and node.func.id == "dict" and not node.args and not node.keywords:
            return ("dict", "dict@%d" % node.lineno)
        if isinstance(node, ast.Dict) and not node.keys:
            return ("dict", "dict@%d" % node.lineno)
        if isinstance(node, ast.Dict) and node.keys and all(isinstance(k, ast.Constant) for k in node.keys):
            return ("keys", tuple(k.value for k in node.keys))      # a dict literal: only its (constant) keys are tracked
        if isinstance(node, ast.Compare) and len(node.ops) == 1 and isinstance(node.ops[0], (ast.Is, ast.IsNot)):
            return OPAQUE
        return OPAQUE

    def safe(self, node, st):
        """evaluation of this expression cannot raise, given what the abstract state knows (value-aware fault model:
        faults arise at calls and at operations on opaque objects, not at `x is None`, constant string operations
        or look-ups of tracked dictionary entries that are known to exist)"""
        if isinstance(node, (ast.Constant, ast.Name)):
            return True
        if isinstance(node, (ast.Tuple, ast.List)):
            return all(self.safe(e, st) for e in node.elts)
        if isinstance(node, ast.BinOp) and isinstance(node.op, ast.Add):
            return self.safe(node.left, st) and self.safe(node.right, st) and self.ev(node, st)[0] == "const"
        if isinstance(node, ast.Call) and isinstance(node.func, ast.Attribute) and node.func.attr in ("upper", "lower", "strip") \
                and not node.args and not node.keywords:
            return self.safe(node.func.value, st) and self.ev(node, st)[0] == "const"
        if isinstance(node, ast.Subscript):
            base = self.ev(node.value, st)
            k = self.ev(node.slice, st)
            if base[0] == "dict" and k[0] == "const" and (base[1], k[1]) in st.heap:
                return self.safe(node.value, st) and self.safe(node.slice, st)
            return False
        if isinstance(node, ast.Compare) and all(isinstance(op, (ast.Is, ast.IsNot)) for op in node.ops):
            return self.safe(node.left, st) and all(self.safe(c, st) for c in node.comparators)
        if isinstance(node, ast.UnaryOp) and isinstance(node.op, ast.Not):
            return self.safe(node.operand, st)
        if isinstance(node, ast.Dict):
            return all(k is not None and self.safe(k, st) for k in node.keys) and all(self.safe(v, st) for v in node.values)
        return False

    def may_raise(self, node, st=None):
        if st is not None and isinstance(node, ast.expr) and self.safe(node, st):
            return False
        return self._may_raise_syntactic(node)

    def _may_raise_syntactic(self, node):
        """does evaluating this expression/statement contain a point where an arbitrary exception may arise?"""
        """does evaluating this expression/statement contain a point where an arbitrary exception may arise?"""
        for n in ast.walk(node):
            if isinstance(n, (ast.Call, ast.Subscript, ast.Attribute, ast.BinOp, ast.UnaryOp, ast.Compare, ast.BoolOp,
                              ast.ListComp, ast.DictComp, ast.SetComp, ast.GeneratorExp, ast.JoinedStr, ast.Starred,
                              ast.Await, ast.Yield, ast.YieldFrom, ast.IfExp, ast.Name)):
                if isinstance(n, ast.Name):
                    continue     # NameError is not part of the fault model
                return True
        return False

    def env_key(self, sub, st):
        k = self.ev(sub.slice, st)
        if k[0] == "const" and isinstance(k[1], str):
            return k[1]
        return None

    def fork_presence(self, K, st):
        if K in st.present:
            return [st]
        a, b = st.copy(), st.copy()
        a.present[K] = True
        b.present[K] = False
        for s in (a, b):
            s.env.setdefault(K, "orig")
        return [a, b]

    def currently_present(self, K, st):
        e = st.env.get(K, "orig")
        if e == "orig":
            return st.present[K]
        if e == "deleted":
            return False
        return True

    def current_value(self, K, st):
        e = st.env.get(K, "orig")
        if e == "orig":
            return ("envorig", K)
        if e == "deleted":
            return None
        return e[1]

    # ---- statements -----------------------------------------------------------
    def block(self, stmts, states):
        """states: list[State] -> list[Outcome]"""
        outs = []
        cur = list(states)
        for s in stmts:
            if not cur:
                break
            nxt = []
            for st in cur:
                for o in self.stmt(s, st):
                    if o.kind == "normal":
                        nxt.append(o.state)
                    else:
                        outs.append(o)
            cur = list({x.key(): x for x in nxt}.values())
            if len(cur) > self.max_states:
                raise Unmodelled("abstract state explosion")
        outs.extend(Outcome("normal", st) for st in cur)
        return dedupe(outs)

    def generic_raise(self, node, st):
        self.stats["may_raise_points"] += 1
        return Outcome("raise", st, exc=("any",), site=("implicit", node.lineno, _first_callee(node)))

    def stmt(self, s, st):
        self.stats["statements"] += 1
        d = self.depth
        # ---- environment patterns
        if isinstance(s, ast.Assign) and len(s.targets) == 1:
            t, v = s.targets[0], s.value
            # os.environ[K] = V
            if isinstance(t, ast.Subscript) and is_environ(t.value):
                K = self.env_key(t, st)
                outs = []
                if self.may_raise(v, st) or self.may_raise(t.slice, st):
                    outs.append(self.generic_raise(s, st))
                if K is None:
                    self.problems.append((s.lineno, "environment write with a key that is not a compile-time constant"))
                    K = "<unknown key @%d>" % s.lineno
                val = self.ev(v, st)
                for s2 in self.fork_presence(K, st):
                    n = s2.copy()
                    if val == ("envorig", K) and n.present[K] is True:
                        n.env[K] = "orig"
                    else:
                        n.env[K] = ("set", val)
                    outs.append(Outcome("normal", n))
                return outs
            # X = os.environ[K]
            if isinstance(v, ast.Subscript) and is_environ(v.value) and isinstance(v.ctx, ast.Load):
                K = self.env_key(v, st)
                if K is not None:
                    outs = []
                    for s2 in self.fork_presence(K, st):
                        if self.currently_present(K, s2):
                            n = s2.copy()
                            self.assign(t, self.current_value(K, s2), n)
                            outs.append(Outcome("normal", n))
                        else:
                            outs.append(Outcome("raise", s2, exc=("named", "KeyError"), site=("env-read", s.lineno, K)))
                    return outs
            # X = os.environ.get(K[, default])
            if isinstance(v, ast.Call) and isinstance(v.func, ast.Attribute) and v.func.attr == "get" and is_environ(v.func.value) and v.args:
                kv = self.ev(v.args[0], st)
                if kv[0] == "const":
                    K = kv[1]
                    outs = []
                    for s2 in self.fork_presence(K, st):
                        n = s2.copy()
                        if self.currently_present(K, s2):
                            self.assign(t, self.current_value(K, s2), n)
                        else:
                            self.assign(t, self.ev(v.args[1], s2) if len(v.args) > 1 else NONE, n)
                        outs.append(Outcome("normal", n))
                    return outs
            # X = f(...)  with f an environment writer of this module: inline
            if isinstance(v, ast.Call) and isinstance(v.func, ast.Name) and v.func.id in self.writers:
                outs = []
                for o in self.inline(v, st):
                    if o.kind == "normal":
                        n = o.state.copy()
                        self.assign(t, o.value if o.value is not None else NONE, n)
                        outs.append(Outcome("normal", n))
                    else:
                        outs.append(o)
                return outs
            # plain assignment
            outs = []
            if self.may_raise(v, st) or (not isinstance(t, ast.Name) and self.may_raise(t)):
                outs.append(self.generic_raise(s, st))
            n = st.copy()
            self.assign(t, self.ev(v, st), n)
            outs.append(Outcome("normal", n))
            return outs
        if isinstance(s, ast.Delete):
            outs = []
            cur = [st]
            for t in s.targets:
                if isinstance(t, ast.Subscript) and is_environ(t.value):
                    K = self.env_key(t, st)
                    if K is None:
                        self.problems.append((s.lineno, "environment delete with a non-constant key"))
                        continue
                    nxt = []
                    for c in cur:
                        for s2 in self.fork_presence(K, c):
                            if self.currently_present(K, s2):
                                n = s2.copy()
                                n.env[K] = "deleted"
                                nxt.append(n)
                            else:
                                outs.append(Outcome("raise", s2, exc=("named", "KeyError"), site=("env-del", s.lineno, K)))
                    cur = nxt
                else:
                    if self.may_raise(t):
                        outs.extend(self.generic_raise(s, c) for c in cur)
            outs.extend(Outcome("normal", c) for c in cur)
            return outs
        if isinstance(s, ast.Expr):
            v = s.value
            if isinstance(v, ast.Call) and isinstance(v.func, ast.Name) and v.func.id in self.writers:
                return [Outcome("normal", o.state) if o.kind == "normal" else o for o in self.inline(v, st)]
            if isinstance(v, ast.Call) and isinstance(v.func, ast.Attribute) and is_environ(v.func.value) and v.func.attr == "pop" \
                    and len(v.args) == 2 and not v.keywords and self.ev(v.args[0], st)[0] == "const":
                K = self.ev(v.args[0], st)[1]
                outs = []
                if self.may_raise(v.args[0], st) or self.may_raise(v.args[1], st):
                    outs.append(self.generic_raise(s, st))
                for s2 in self.fork_presence(K, st):
                    n = s2.copy()
                    n.env[K] = "deleted"
                    outs.append(Outcome("normal", n))
                return outs
            if isinstance(v, ast.Call) and isinstance(v.func, ast.Attribute) and is_environ(v.func.value) and v.func.attr in ENV_WRITE_METHODS:
                self.problems.append((s.lineno, "unmodelled environment write os.environ.%s(...)" % v.func.attr))
            outs = []
            if self.may_raise(s):
                outs.append(self.generic_raise(s, st))
            outs.append(Outcome("normal", st))
            return outs
        if isinstance(s, (ast.AugAssign, ast.AnnAssign)):
            outs = [self.generic_raise(s, st)]
            n = st.copy()
            tgt = s.target
            if isinstance(tgt, ast.Subscript) and is_environ(tgt.value):
                self.problems.append((s.lineno, "augmented assignment to os.environ[...]"))
            self.assign(tgt, OPAQUE, n)
            outs.append(Outcome("normal", n))
            return outs
        if isinstance(s, ast.Assign):
            outs = []
            if self.may_raise(s):
                outs.append(self.generic_raise(s, st))
            n = st.copy()
            val = self.ev(s.value, st)
            for t in s.targets:
                if isinstance(t, ast.Subscript) and is_environ(t.value):
                    self.problems.append((s.lineno, "chained assignment to os.environ[...]"))
                self.assign(t, val, n)
            outs.append(Outcome("normal", n))
            return outs
        if isinstance(s, ast.Return) and isinstance(s.value, ast.Call) and isinstance(s.value.func, ast.Name) \
                and s.value.func.id in self.writers:
            outs = []
            for o in self.inline(s.value, st):
                if o.kind == "normal":
                    outs.append(Outcome("return", o.state, site=("return", s.lineno, None), value=o.value if o.value is not None else NONE))
                else:
                    outs.append(o)
            return outs
        if isinstance(s, ast.Return):
            outs = []
            if s.value is not None and self.may_raise(s.value, st):
                outs.append(self.generic_raise(s, st))
            outs.append(Outcome("return", st, site=("return", s.lineno, None), value=self.ev(s.value, st) if s.value is not None else NONE))
            return outs
        if isinstance(s, ast.Raise):
            outs = []
            name = None
            if s.exc is not None:
                e = s.exc.func if isinstance(s.exc, ast.Call) else s.exc
                if isinstance(e, ast.Name):
                    name = e.id
                if isinstance(s.exc, ast.Call) and any(self.may_raise(a) for a in s.exc.args):
                    outs.append(self.generic_raise(s, st))
            outs.append(Outcome("raise", st, exc=("named", name) if name else ("any",), site=("explicit", s.lineno, name)))
            return outs
        if isinstance(s, ast.If):
            outs = []
            if self.may_raise(s.test, st):
                outs.append(self.generic_raise(s.test, st))
            tv = self.truth(s.test, st)
            if tv is not False:
                outs.extend(self.block(s.body, [st]))
            if tv is not True:
                outs.extend(self.block(s.orelse, [st]))
            return dedupe(outs)
        if isinstance(s, (ast.For, ast.While)):
            return self.loop(s, st)
        if isinstance(s, ast.Try):
            return self.try_(s, st)
        if isinstance(s, ast.With):
            outs = [self.generic_raise(s, st)]          # __enter__ / context expression
            n = st.copy()
            for it in s.items:
                if it.optional_vars is not None:
                    self.assign(it.optional_vars, OPAQUE, n)
            for o in self.block(s.body, [n]):
                outs.append(o)
                if o.kind == "normal":
                    outs.append(self.generic_raise(s, o.state))   # __exit__ may raise
            return dedupe(outs)
        if isinstance(s, (ast.Pass, ast.Global, ast.Nonlocal, ast.FunctionDef, ast.ClassDef)):
            return [Outcome("normal", st)]
        if isinstance(s, (ast.Import, ast.ImportFrom)):
            n = st.copy()
            for al in s.names:
                n.loc.pop((d, al.asname or al.name.split(".")[0]), None)
            return [self.generic_raise(s, st), Outcome("normal", n)]
        if isinstance(s, ast.Assert):
            return [self.generic_raise(s, st), Outcome("normal", st)]
        if isinstance(s, ast.Break):
            return [Outcome("break", st)]
        if isinstance(s, ast.Continue):
            return [Outcome("continue", st)]
        raise Unmodelled("statement %s at line %d" % (type(s).__name__, s.lineno))

    def truth(self, test, st):
        """True / False / None(unknown)"""
        if isinstance(test, ast.Compare) and len(test.ops) == 1 and isinstance(test.ops[0], (ast.Is, ast.IsNot)):
            a, b = self.ev(test.left, st), self.ev(test.comparators[0], st)
            known = {"none", "const", "envorig", "dict"}
            if a[0] in known and b[0] in known:
                same = (a[0] == "none") == (b[0] == "none") if "none" in (a[0], b[0]) else None
                if same is None:
                    return None
                return same if isinstance(test.ops[0], ast.Is) else (not same)
            return None
        if isinstance(test, ast.UnaryOp) and isinstance(test.op, ast.Not):
            t = self.truth(test.operand, st)
            return None if t is None else (not t)
        v = self.ev(test, st)
        if v[0] == "none":
            return False
        if v[0] == "const":
            return bool(v[1])
        return None

    def assign(self, t, val, st):
        d = self.depth
        if isinstance(t, ast.Name):
            st.loc[(d, t.id)] = val
            if val == OPAQUE:
                st.loc.pop((d, t.id), None)
        elif isinstance(t, (ast.Tuple, ast.List)):
            for i, e in enumerate(t.elts):
                if val[0] == "tuple" and i < len(val[1]):
                    self.assign(e, val[1][i], st)
                elif val[0] == "const" and isinstance(val[1], tuple) and i < len(val[1]):
                    self.assign(e, ("const", val[1][i]), st)
                else:
                    self.assign(e, OPAQUE, st)
        elif isinstance(t, ast.Subscript):
            base = self.ev(t.value, st)
            k = self.ev(t.slice, st)
            if base[0] == "dict":
                if k[0] == "const":
                    st.heap[(base[1], k[1])] = val
                    if val == OPAQUE:
                        st.heap.pop((base[1], k[1]), None)
                else:
                    for hk in [hk for hk in st.heap if hk[0] == base[1]]:
                        del st.heap[hk]
        elif isinstance(t, ast.Starred):
            self.assign(t.value, OPAQUE, st)
        # attribute targets: no tracked effect

    def loop(self, s, st):
        outs = []
        d = self.depth
        if isinstance(s, ast.For):
            if self.may_raise(s.iter, st):
                outs.append(self.generic_raise(s.iter, st))
            it = self.ev(s.iter, st)
            items = None
            if it[0] == "const" and isinstance(it[1], tuple):
                items = [("const", x) for x in it[1]]
            elif it[0] == "keys":
                items = [("const", x) for x in it[1]]
            elif it[0] == "tuple":
                items = list(it[1])
            if items is not None:
                cur = [st]
                for item in items:
                    nxt = []
                    for c in cur:
                        n = c.copy()
                        self.assign(s.target, item, n)
                        for o in self.block(s.body, [n]):
                            if o.kind in ("normal", "continue"):
                                nxt.append(o.state)
                            elif o.kind == "break":
                                outs.append(Outcome("normal", o.state))
                            else:
                                outs.append(o)
                    cur = list({x.key(): x for x in nxt}.values())
                for c in cur:
                    outs.extend(self.block(s.orelse, [c]))
                return dedupe(outs)
        else:
            if self.may_raise(s.test):
                outs.append(self.generic_raise(s.test, st))
        # fixpoint over the finite abstract domain
        self.stats["fixpoints"] += 1
        seen = {}
        work = [st]
        exits = []
        while work:
            c = work.pop()
            if c.key() in seen:
                continue
            seen[c.key()] = c
            exits.append(c)                       # the loop may stop before this iteration
            n = c.copy()
            if isinstance(s, ast.For):
                self.assign(s.target, OPAQUE, n)
                outs.append(self.generic_raise(s.iter, n))      # next() of the iterator may raise
            elif self.may_raise(s.test):
                outs.append(self.generic_raise(s.test, n))
            for o in self.block(s.body, [n]):
                if o.kind in ("normal", "continue"):
                    work.append(o.state)
                elif o.kind == "break":
                    outs.append(Outcome("normal", o.state))
                else:
                    outs.append(o)
            if len(seen) > self.max_states:
                raise Unmodelled("loop fixpoint explosion")
        for c in exits:
            outs.extend(self.block(s.orelse, [c]))
        return dedupe(outs)

    def catches(self, handler, exc):
        """True (definitely) / False / None (maybe)"""
        if handler.type is None:
            return True
        names = []
        tn = handler.type
        for e in (tn.elts if isinstance(tn, ast.Tuple) else [tn]):
            names.append(e.id if isinstance(e, ast.Name) else (e.attr if isinstance(e, ast.Attribute) else None))
        if any(n in ("Exception", "BaseException") for n in names):
            return True
        if exc[0] == "any":
            return None
        en = exc[1]
        for n in names:
            if n == en:
                return True
            a, b = getattr(builtins, en or "", None), getattr(builtins, n or "", None)
            if isinstance(a, type) and isinstance(b, type) and issubclass(a, b):
                return True
            if a is None or b is None:
                if n is not None and en is not None and (getattr(builtins, n, None) is None or getattr(builtins, en, None) is None):
                    # package-defined exception classes: resolve through the module
                    ca, cb = getattr(self.mod, en, None), getattr(self.mod, n, None)
                    if isinstance(ca, type) and isinstance(cb, type):
                        if issubclass(ca, cb):
                            return True
                        continue
                    return None
        return False

    def try_(self, s, st):
        body = self.block(s.body, [st])
        after = []       # outcomes before `finally`
        for o in body:
            if o.kind == "normal":
                after.extend(self.block(s.orelse, [o.state]))
            elif o.kind == "raise":
                handled_def = False
                for h in s.handlers:
                    c = self.catches(h, o.exc)
                    if c is False:
                        continue
                    n = o.state.copy()
                    if h.name:
                        n.loc.pop((self.depth, h.name), None)
                    after.extend(self.block(h.body, [n]))
                    if c is True:
                        handled_def = True
                        break
                if not handled_def:
                    after.append(o)
            else:
                after.append(o)
        if not s.finalbody:
            return dedupe(after)
        outs = []
        for o in after:
            for f in self.block(s.finalbody, [o.state]):
                if f.kind == "normal":
                    outs.append(Outcome(o.kind, f.state, o.exc, o.site, o.value))
                else:
                    outs.append(f)       # finally overrides (its own raise/return)
        return dedupe(outs)

    def inline(self, call, st):
        fn = self.funcs[call.func.id]
        self.stats["inlined_calls"] += 1
        outs = []
        if any(self.may_raise(a) for a in call.args) or any(self.may_raise(k.value) for k in call.keywords):
            outs.append(self.generic_raise(call, st))
        n = st.copy()
        params = [a.arg for a in fn.args.args]
        defaults = fn.args.defaults
        vals = {}
        for i, a in enumerate(call.args):
            if i < len(params):
                vals[params[i]] = self.ev(a, st)
        for k in call.keywords:
            if k.arg:
                vals[k.arg] = self.ev(k.value, st)
        for i, dflt in enumerate(defaults):
            p = params[len(params) - len(defaults) + i]
            if p not in vals:
                vals[p] = self.ev(dflt, State())
        self.depth += 1
        try:
            for p in params:
                if vals.get(p, OPAQUE) != OPAQUE:
                    n.loc[(self.depth, p)] = vals[p]
            res = self.block(fn.body, [n])
        finally:
            self.depth -= 1
        for o in res:
            s2 = o.state.copy()
            for k in [k for k in s2.loc if k[0] > self.depth]:
                del s2.loc[k]
            if o.kind == "return":
                outs.append(Outcome("normal", s2, value=o.value))
            elif o.kind == "normal":
                outs.append(Outcome("normal", s2, value=NONE))
            elif o.kind == "raise":
                outs.append(Outcome("raise", s2, o.exc, ("in-callee", call.lineno, "%s: %s" % (fn.name, o.site))))
            else:
                raise Unmodelled("break/continue escaping a function")
        return dedupe(outs)

    # ---- entry ----------------------------------------------------------------
    def analyse(self, fname):
        fn = self.funcs[fname]
        st = State()
        outs = self.block(fn.body, [st])
        exits = []
        for o in outs:
            kind = o.kind
            if kind == "normal":
                kind = "return"
                o.site = ("fall-off-end", fn.end_lineno, None)
            if kind not in ("return", "raise"):
                raise Unmodelled("%s escaping %s" % (kind, fname))
            exits.append(o)
        return exits


def _first_callee(node):
    for n in ast.walk(node):
        if isinstance(n, ast.Call):
            f = n.func
            try:
                return ast.unparse(f)
            except Exception:
                return None
    return None
