"""Prints the markdown tables of DESIGN.md appendix A (jobs per property, from evidence/*.json) and appendix B (seeded changes, from seeded/*/meta.json)."""
import glob
import json
import os
import re

V = os.path.dirname(os.path.dirname(os.path.abspath(__file__)))
print("### A. Functions under contract, per property (from evidence/*.json of the last full run)\n")
print("| property | job | real code under contract | level | bound (B / C jobs) | named obligations |")
print("|---|---|---|---|---|---|")
for f in sorted(glob.glob(os.path.join(V, "evidence", "C*.json"))):
    e = json.load(open(f))
    for j in e["coverage"]["functions_under_contract"]:
        print("| %s | %s | `%s` | %s | %s | %d |" % (e["property_id"], j["job"], j["target"], j["level"], (j.get("bound") or "-").replace("|", "/"), j["obligations"]))
print("\n### B. Seeded changes (seeded/<id>/) and the obligations that report them\n")
print("| seed | change | needs | reported by (quick tier) |")
print("|---|---|---|---|")
for d in sorted(glob.glob(os.path.join(V, "seeded", "*"))):
    m = json.load(open(os.path.join(d, "meta.json")))
    v = m.get("check_violations", [])
    obs = sorted({re.sub(r"\[.*", "", os.path.basename(x.split("replay=")[1].split(".json")[0])) for x in v if "replay=" in x})
    rep = "; ".join(o.replace("_post.", ":").replace("_runtime-contract", ":runtime-contract") for o in obs[:4]) + (" (+%d more)" % (len(obs) - 4) if len(obs) > 4 else "")
    if m.get("check_exit") != 1:
        rep = "**not reported** (exit %s)%s" % (m.get("check_exit"), (": " + m["note"]) if m.get("note") else "")
    print("| %s | %s | %s | %s |" % (os.path.basename(d), m["summary"].replace("|", "/")[:260], m.get("needs", "").replace("|", "/")[:200], rep))
