"""pyvc engine: forking driver, path conditions, named proof obligations.

The real function (its AST re-read from /repo, see amode.py) is executed by
CPython on symbolic proxies.  Whenever a proxy is forced to a concrete bool
(`if`, `while`, `and`, `.any()`), `Engine.decide` consults a decision trail;
the driver re-executes the function until every feasible path is explored.
Obligations (`prove`) are discharged by z3 under the current path condition.
`unknown` is never mapped to "holds".
"""
import time
import z3

RLIMIT = 40_000_000          # deterministic budget per query (z3 resource units)
WALL_MS = 10_000            # generous wall cap, only a safety net


class PathStop(Exception):
    """Silently end the current path (after an inv-step check)."""


class Infeasible(Exception):
    """The current path condition is unsatisfiable."""


class Unsupported(Exception):
    """The engine cannot model an operation: checker limitation, never a verdict."""


class Obligation:
    def __init__(self, name, path, status, secs, model=None, note="", formula_size=0, backend="z3", reason=""):
        backend = backend or "z3"
        self.name, self.path, self.status, self.secs = name, path, status, secs
        self.model, self.note, self.formula_size, self.backend, self.reason = model, note, formula_size, backend, reason

    def as_dict(self):
        return dict(name=self.name, path=self.path, status=self.status, secs=round(self.secs, 4),
                    note=self.note, backend=self.backend, size=self.formula_size)


class Path:
    def __init__(self, idx, kind, value, trail, npc):
        self.idx, self.kind, self.value, self.trail, self.npc = idx, kind, value, trail, npc

    def __repr__(self):
        return "<Path %d %s %r>" % (self.idx, self.kind, self.value)


class Engine:
    current = None

    def __init__(self, label="", rlimit=RLIMIT, max_paths=4000):
        self.label = label
        self.rlimit = rlimit
        self.max_paths = max_paths
        self.verbose = bool(__import__("os").environ.get("PYVC_VERBOSE"))
        self.obligations = []
        self.paths = []
        self.solver_s = 0.0
        self.queries = 0
        self.assumptions_used = set()     # names of trusted models touched on some path
        self.global_axioms = []           # z3 formulas added to every path (spec-function axioms)
        self.budget_s = 900
        self.wall_ms = WALL_MS
        self.nl_mode = "nra"              # 'nra': real products are real products; 'uf': opaque (congruence only)
        self._reset_path([])

    # ---- path state -------------------------------------------------
    def _reset_path(self, prefix):
        self.prefix = list(prefix)
        self.trail = []
        self.pending = []
        self.fresh_n = 0
        self.pc = list(self.global_axioms)
        self.npc = 0
        self.lits = {}
        self._keep = []
        self.in_spec = 0
        self.path_notes = []
        self.ghost = {}

    def fresh_name(self, hint="v"):
        self.fresh_n += 1
        return "%s!%d" % (hint, self.fresh_n)

    def add_axiom(self, f):
        """Axiom valid on every path (spec function definitions)."""
        self.global_axioms.append(f)
        self.pc.append(f)

    def _solver(self, *extra):
        # a FRESH solver per query: z3's incremental mode (push/pop) skips preprocessing and was
        # observed to time out on queries a fresh solver decides in 0.07 s.
        s = z3.Solver()
        s.set("rlimit", self.rlimit)
        s.set("timeout", self.wall_ms)
        for f in self.pc:
            s.add(f)
        for f in extra:
            s.add(f)
        return s

    def _check_qf(self, *extra):
        """feasibility pre-check on the quantifier-free part of the path condition (an over-approximation
        of feasibility: sound, infeasible paths that need quantifier reasoning are merely explored in vain)"""
        t0 = time.time()
        s = z3.Solver()
        s.set("rlimit", self.rlimit // 4)
        s.set("timeout", 5000)
        for f in self.pc:
            if not has_quant(f):
                s.add(f)
        for f in extra:
            s.add(f)
        r = s.check()
        self.solver_s += time.time() - t0
        self.queries += 1
        return r

    def _check(self, *extra):
        t0 = time.time()
        s = self._solver(*extra)
        r = s.check()
        self.solver_s += time.time() - t0
        self.queries += 1
        self._last = s
        return r

    def assume(self, cond):
        cond = _z(cond)
        if z3.is_false(z3.simplify(cond)):
            raise Infeasible()
        self.pc.append(cond)
        self.npc += 1

    def feasible(self):
        return self._check_qf() != z3.unsat

    def decide(self, cond):
        cond = _z(cond)
        s = z3.simplify(cond)
        if z3.is_true(s):
            return True
        if z3.is_false(s):
            return False
        # purely propositional structure over Boolean constants is decided atom by atom (short-circuit like Python's
        # and/or): every decision is then a cached literal.  Formulas with theory atoms are decided as a whole.
        if (z3.is_and(s) or z3.is_or(s) or (z3.is_not(s) and (z3.is_and(s.arg(0)) or z3.is_or(s.arg(0))))) and _prop_only(s):
            if z3.is_and(s):
                for c in s.children():
                    if not self.decide(c):
                        return False
                return True
            if z3.is_or(s):
                for c in s.children():
                    if self.decide(c):
                        return True
                return False
            return not self.decide(s.arg(0))
        # a literal already decided on this path (deterministic, so replays stay aligned)
        atom, neg = (s.arg(0), True) if z3.is_not(s) else (s, False)
        known = self.lits.get(atom.get_id())
        if known is not None:
            return (not known) if neg else known
        pos = len(self.trail)
        if pos < len(self.prefix):
            b = self.prefix[pos]
        else:
            if has_quant(cond):
                # satisfiability queries with quantifiers run into the time-out; both branches are explored
                # (an infeasible branch only yields vacuously true obligations)
                can_t = can_f = self._check_qf() != z3.unsat
            else:
                can_t = self._check_qf(cond) != z3.unsat
                can_f = self._check_qf(z3.Not(cond)) != z3.unsat
            if can_t and can_f:
                b = True
                self.pending.append(self.trail[:pos] + [False])
            elif can_t:
                b = True
            elif can_f:
                b = False
            else:
                raise Infeasible()
        self.trail.append(b)
        self.pc.append(cond if b else z3.Not(cond))
        self.lits[atom.get_id()] = (not b) if neg else b
        self._keep.append(atom)
        self.npc += 1
        return b

    def choice(self, label=""):
        """Nondeterministic boolean (both values explored)."""
        pos = len(self.trail)
        if pos < len(self.prefix):
            b = self.prefix[pos]
        else:
            b = True
            self.pending.append(self.trail[:pos] + [False])
        self.trail.append(b)
        return b

    # ---- obligations --------------------------------------------------
    def prove(self, name, cond, note="", assume_after=True):
        cond = _z(cond)
        t0 = time.time()
        s = z3.simplify(cond)
        if z3.is_true(s):
            status, model, reason = "unsat", None, ""
        elif False:
            pass
        else:
            r = self._check(z3.Not(cond))
            model = None
            reason = ""
            if r == z3.unsat:
                status = "unsat"
            elif r == z3.sat:
                status = "sat"
                try:
                    model = self._last.model()
                except z3.Z3Exception:
                    model = None
            else:
                status = "unknown"
                reason = self._last.reason_unknown()
                # the other solvers get a chance on the first few unknowns only: a tree on which many obligations are
                # undecided is failing anyway, and each attempt costs up to 45 s
                self._fb_tries = getattr(self, "_fb_tries", 0) + 1
                fb = self._fallback_backends(self._last) if self._fb_tries <= getattr(self, "fb_limit", 4) else None
                if fb is not None:
                    status, reason = "unsat", ""
                    self._fb_backend = fb
                if __import__("os").environ.get("PYVC_DUMP"):
                    open("%s/%s_%d.smt2" % (__import__("os").environ["PYVC_DUMP"], name.replace(":", "_").replace("@", "_"), len(self.paths)), "w").write(self._last.to_smt2())
                try:
                    model = self._last.model()   # candidate model, must be replayed
                except z3.Z3Exception:
                    model = None
        ob = Obligation(name, len(self.paths), status, time.time() - t0, model, note,
                        formula_size=len(str(s)) if not z3.is_true(s) else 0, reason=reason,
                        backend=getattr(self, "_fb_backend", None) or "z3")
        self._fb_backend = None
        self.obligations.append(ob)
        if self.verbose:
            print("   [%s] %s path=%d %.2fs %s" % (status, name, ob.path, ob.secs, reason), flush=True)
        if assume_after and status != "unsat":
            # continue the path under the assumption so later obligations are independent
            try:
                self.assume(cond)
            except Infeasible:
                raise PathStop()
        elif assume_after:
            self.pc.append(cond)
        return ob

    def _fallback_backends(self, solver):
        """z3 (Python API, 5.x) answered `unknown`: hand the same query to the other installed solvers.
        Only an `unsat` from one of them is accepted (and none may say `sat`); returns the backend name or None."""
        import os
        import subprocess
        import tempfile
        try:
            txt = solver.to_smt2()
        except Exception:
            return None
        fd, path = tempfile.mkstemp(suffix=".smt2", prefix="pyvc_")
        os.close(fd)
        answers = {}
        try:
            with open(path, "w") as f:
                f.write(txt)
            backends = [("z3-4.8.12-cli", ["/usr/bin/z3", "-T:25", path]), ("cvc5-1.0.3-cli", ["/usr/bin/cvc5", "--tlimit=%d" % getattr(self, "cvc5_tlimit_ms", 20000), path])]
            if getattr(self, "fb_first", None) == "cvc5":
                backends.reverse()
            for nm, cmd in backends:
                if not os.path.exists(cmd[0]):
                    continue
                t0 = time.time()
                try:
                    out = subprocess.run(cmd, capture_output=True, text=True, timeout=40 + getattr(self, "cvc5_tlimit_ms", 20000) // 1000).stdout.strip().splitlines()
                except Exception:
                    out = []
                self.solver_s += time.time() - t0
                self.queries += 1
                ans = out[0].strip() if out else "error"
                answers[nm] = ans
                if ans == "unsat":
                    break
        finally:
            try:
                os.unlink(path)
            except OSError:
                pass
        if "sat" in answers.values():
            return None
        for nm, ans in answers.items():
            if ans == "unsat":
                return nm
        return None

    def fail(self, name, note=""):
        """Record an obligation that failed for a non-solver reason (e.g. unexpected exception on a feasible path)."""
        # the obligation is "this point is unreachable": proved iff the full path condition is unsat
        return self.prove(name, z3.BoolVal(False), note=note, assume_after=False)

    def ok(self, name, note=""):
        ob = Obligation(name, len(self.paths), "unsat", 0.0, None, note, backend="path")
        self.obligations.append(ob)
        return ob

    # ---- driver -------------------------------------------------------
    def explore(self, thunk, on_path=None):
        """Run thunk() on every feasible path.  on_path(path) is called at the end of each path
        while the path's solver state is still alive (post-conditions are proved there)."""
        Engine.current = self
        stack = [[]]
        first = True
        t_start = time.time()
        while stack:
            prefix = stack.pop()
            if len(self.paths) >= self.max_paths:
                raise Unsupported("path explosion (> %d paths) in %s" % (self.max_paths, self.label))
            if time.time() - t_start > self.budget_s:
                raise Unsupported("exploration budget of %d s exhausted after %d paths in %s" % (self.budget_s, len(self.paths), self.label))
            self._reset_path(prefix)
            kind, value = None, None
            try:
                value = thunk()
                kind = "return"
            except PathStop:
                kind = "stop"
            except Infeasible:
                kind = "infeasible"
            except Unsupported:
                raise
            except z3.Z3Exception as e:
                raise Unsupported("z3 error inside the engine: %s" % e)
            except Exception as e:      # exception raised by the code under analysis
                if _engine_bug(e):
                    raise Unsupported("engine limitation: %s: %s" % (type(e).__name__, e))
                kind, value = "raise", e
            p = Path(len(self.paths), kind, value, list(self.trail), self.npc)
            if kind in ("return", "raise") and on_path is not None:
                if self.feasible():
                    try:
                        on_path(p)
                    except (PathStop, Infeasible):
                        pass
                else:
                    p.kind = "infeasible"
            self.paths.append(p)
            stack.extend(self.pending)
        return self.paths

    # ---- summaries ------------------------------------------------------
    def summary(self):
        by = {}
        for ob in self.obligations:
            d = by.setdefault(ob.name, dict(instances=0, unsat=0, sat=0, unknown=0, secs=0.0))
            d["instances"] += 1
            d[ob.status] += 1
            d["secs"] += ob.secs
        return by


def _engine_bug(e):
    """TypeError/AttributeError/NameError... raised from inside pyvc itself (a proxy lacks an operation):
    a checker limitation, never a verdict.  Python-semantics exceptions that the proxies raise on purpose
    (IndexError, ValueError, OverflowError, ZeroDivisionError, and TypeError with the CPython wording for
    float-as-integer) are verdict-relevant."""
    import traceback as _tb
    tb = _tb.extract_tb(e.__traceback__)
    if not tb:
        return False
    inner = tb[-1].filename
    if "/pyvc/" not in inner:
        return False
    if isinstance(e, (IndexError, ValueError, OverflowError, ZeroDivisionError, KeyError)):
        return False
    if isinstance(e, TypeError) and "cannot be interpreted as an integer" in str(e):
        return False
    return True


def _prop_only(f):
    if z3.is_and(f) or z3.is_or(f) or z3.is_not(f):
        return all(_prop_only(c) for c in f.children())
    return z3.is_const(f) and z3.is_bool(f)


_HQ = {}


def has_quant(f):
    i = f.get_id()
    r = _HQ.get(i)
    if r is None:
        if z3.is_quantifier(f):
            r = True
        elif z3.is_app(f):
            r = any(has_quant(c) for c in f.children())
        else:
            r = False
        if len(_HQ) > 200000:
            _HQ.clear()
        _HQ[i] = r
    return r


def eng():
    return Engine.current


class spec_eval:
    """while a contract clause is being evaluated no safety obligations are emitted for the clause's own arithmetic"""
    def __enter__(self):
        Engine.current.in_spec += 1

    def __exit__(self, *a):
        Engine.current.in_spec -= 1


def _z(x):
    if isinstance(x, bool):
        return z3.BoolVal(x)
    if hasattr(x, "z"):
        return x.z
    return x
