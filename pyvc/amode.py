"""A-mode: the REAL function's AST (re-read from /repo on every run) is rewritten in exactly
these places, compiled, and executed by CPython on symbolic containers:

 1. loops that have a contract entry are replaced by their *cut*
    (assert inv; havoc modified state; one arbitrary iteration + assert inv | exit with inv and not test);
 2. `import`/`from .. import` statements inside the function body are redirected to
    `__pyvc_import__`, which serves the engine's shims for numpy / re / os / scipy names;
 3. builtins `len range int float abs min max sum isinstance bool round` and module globals
    `np re os warnings` are bound to engine versions in the function's global namespace
    (no AST change: a namespace binding).
Everything else is executed by CPython itself.  The rewritten source of each function is kept
(`Loaded.rewritten_source`) and written next to the evidence.
"""
import ast
import copy
import importlib
import types
import z3

from .engine import eng, PathStop, Infeasible, Unsupported, spec_eval
from .proxies import SBool, SInt, SReal, SBV, zbool, trunc_int, to_real, fresh, ite
from . import arrays as A


class NS:
    """attribute view on a dict of locals"""
    def __init__(self, d):
        self.__dict__.update(d)

    def __getitem__(self, k):
        return self.__dict__[k]

    def get(self, k, default=None):
        return self.__dict__.get(k, default)


# ---------------------------------------------------------------------------
# locating the function in the real source
# ---------------------------------------------------------------------------
def find_function(tree, path):
    node = tree
    for part in path.split("."):
        found = None
        for ch in node.body:
            if isinstance(ch, (ast.FunctionDef, ast.ClassDef)) and ch.name == part:
                found = ch
                break
        if found is None:
            raise LookupError("function %s not found in source" % path)
        node = found
    if not isinstance(node, ast.FunctionDef):
        raise LookupError("%s is not a function" % path)
    return node


def loops_preorder(fn):
    out = []

    class V(ast.NodeVisitor):
        def visit_For(self, n):
            out.append(n)
            self.generic_visit(n)

        def visit_While(self, n):
            out.append(n)
            self.generic_visit(n)

        def visit_FunctionDef(self, n):
            if n is fn:
                self.generic_visit(n)

        def visit_Lambda(self, n):
            pass
    V().visit(fn)
    return out


def assigned_names(nodes):
    """names rebound, and expressions mutated in place, by a list of statements"""
    names, inplace = [], []

    def target(t):
        if isinstance(t, ast.Name):
            if t.id not in names:
                names.append(t.id)
        elif isinstance(t, (ast.Tuple, ast.List)):
            for e in t.elts:
                target(e)
        elif isinstance(t, ast.Starred):
            target(t.value)
        elif isinstance(t, ast.Subscript):
            src = ast.unparse(t.value)
            if src not in [ast.unparse(x) for x in inplace]:
                inplace.append(t.value)
        elif isinstance(t, ast.Attribute):
            # obj.attr = value : treated as rebinding of the attribute
            src = ast.unparse(t)
            if src not in [ast.unparse(x) for x in inplace if isinstance(x, ast.Attribute)]:
                inplace.append(t)

    class V(ast.NodeVisitor):
        def visit_Assign(self, n):
            for t in n.targets:
                target(t)
            self.generic_visit(n)

        def visit_AugAssign(self, n):
            target(n.target)
            self.generic_visit(n)

        def visit_AnnAssign(self, n):
            target(n.target)
            self.generic_visit(n)

        def visit_For(self, n):
            target(n.target)
            self.generic_visit(n)

        def visit_With(self, n):
            for it in n.items:
                if it.optional_vars is not None:
                    target(it.optional_vars)
            self.generic_visit(n)

        def visit_NamedExpr(self, n):
            target(n.target)
            self.generic_visit(n)
    for s in nodes:
        V().visit(s)
    return names, inplace


class _BreakRewriter(ast.NodeTransformer):
    """inside a cut body: `break` of THIS loop -> set flag and leave the one-shot wrapper"""
    def __init__(self, flag):
        self.flag = flag

    def visit_For(self, n):
        return n           # nested native loops keep their own break/continue

    def visit_While(self, n):
        return n

    def visit_FunctionDef(self, n):
        return n

    def visit_Break(self, n):
        return [ast.Assign(targets=[ast.Name(id=self.flag, ctx=ast.Store())], value=ast.Constant(True)),
                ast.Break()]


def _name(id_, ctx=None):
    return ast.Name(id=id_, ctx=ctx or ast.Load())


def _call(fn, *args):
    return ast.Call(func=fn, args=list(args), keywords=[])


def _pv(attr):
    return ast.Attribute(value=_name("__pv"), attr=attr, ctx=ast.Load())


def _locals():
    return _call(_name("locals"))


class Cutter(ast.NodeTransformer):
    def __init__(self, fn, cut_ordinals):
        self.fn = fn
        self.order = {id(n): k for k, n in enumerate(loops_preorder(fn))}
        self.cut = set(cut_ordinals)
        self.info = {}

    def visit_FunctionDef(self, n):
        if n is self.fn:
            self.generic_visit(n)
        return n

    def visit_Import(self, n):
        out = []
        for al in n.names:
            bind = al.asname or al.name.split(".")[0]
            out.append(ast.Assign(targets=[_name(bind, ast.Store())],
                                  value=_call(_name("__pyvc_import__"), ast.Constant(al.name), ast.Constant(None))))
        return out

    def visit_ImportFrom(self, n):
        out = []
        for al in n.names:
            bind = al.asname or al.name
            out.append(ast.Assign(targets=[_name(bind, ast.Store())],
                                  value=_call(_name("__pyvc_import__"), ast.Constant(n.module), ast.Constant(al.name))))
        return out

    def _cut_common(self, n, k):
        names, inplace = assigned_names(n.body if not isinstance(n, ast.For) else n.body)
        return names, inplace

    def visit_For(self, n):
        k = self.order.get(id(n))
        self.generic_visit(n)
        if k not in self.cut:
            return n
        if n.orelse:
            raise Unsupported("for-else in a cut loop")
        seq_loop = not (isinstance(n.iter, ast.Call) and isinstance(n.iter.func, ast.Name) and n.iter.func.id == "range")
        if not isinstance(n.target, ast.Name):
            raise Unsupported("cut for-loop must bind a single NAME: " + ast.unparse(n.target))
        if seq_loop:
            return self._cut_seq_loop(n, k)
        T = n.target.id
        names, inplace = assigned_names(n.body)
        names = [x for x in names if x != T]
        return self._emit_for(n, k, T, names, inplace)

    def _emit_for(self, n, k, T, names, inplace):
        self.info[k] = dict(kind="for", var=T, names=names, inplace=[ast.unparse(e) for e in inplace],
                            header=ast.unparse(n.iter), lineno=n.lineno)
        K = ast.Constant(k)
        lo, hi, it, brk = "__lo%d" % k, "__hi%d" % k, "__it%d" % k, "__brk%d" % k
        body = [_BreakRewriter(brk).visit(copy.deepcopy(s)) for s in n.body]
        flat = []
        for s in body:
            flat.extend(s if isinstance(s, list) else [s])
        stmts = []
        # bounds
        stmts.append(ast.Assign(targets=[ast.Tuple(elts=[_name(lo, ast.Store()), _name(hi, ast.Store())], ctx=ast.Store())],
                                value=_call(_pv("range_bounds"), K, *n.iter.args)))
        stmts.append(ast.Assign(targets=[_name(T, ast.Store())], value=_name(lo)))
        stmts.append(ast.Expr(_call(_pv("inv_check"), K, ast.Constant("init"), _locals())))
        # havoc
        tgt = ast.Tuple(elts=[_name(x, ast.Store()) for x in names + [T]], ctx=ast.Store())
        stmts.append(ast.Assign(targets=[tgt], value=_call(_pv("havoc"), K, _locals(),
                                ast.List(elts=[ast.Constant(x) for x in names + [T]], ctx=ast.Load()),
                                ast.List(elts=[ast.Constant(ast.unparse(e)) for e in inplace], ctx=ast.Load()))))
        # missing names (unbound before the loop) are deleted again
        stmts.append(ast.Expr(_call(_pv("noop"))))
        it_body = []
        it_body.append(ast.Expr(_call(_pv("assume_iter"), K, _locals())))
        it_body.append(ast.Assign(targets=[_name(it, ast.Store())], value=_name(T)))
        it_body.append(ast.Assign(targets=[_name(brk, ast.Store())], value=ast.Constant(False)))
        it_body.append(ast.For(target=_name("__once", ast.Store()), iter=ast.Tuple(elts=[ast.Constant(0)], ctx=ast.Load()),
                               body=flat or [ast.Pass()], orelse=[]))
        it_body.append(ast.If(test=ast.UnaryOp(op=ast.Not(), operand=_name(brk)),
                              body=[ast.Assign(targets=[_name(T, ast.Store())],
                                               value=ast.BinOp(left=_name(it), op=ast.Add(), right=ast.Constant(1))),
                                    ast.Expr(_call(_pv("inv_check"), K, ast.Constant("step"), _locals())),
                                    ast.Expr(_call(_pv("stop")))],
                              orelse=[ast.Assign(targets=[_name(T, ast.Store())], value=_name(it))]))
        ex_body = [ast.Expr(_call(_pv("assume_exit"), K, _locals())),
                   ast.Assign(targets=[_name(T, ast.Store())], value=_call(_pv("exit_var"), K, _locals()))]
        stmts.append(ast.If(test=_call(_pv("choice"), K), body=it_body, orelse=ex_body))
        stmts = self._undef_guard(stmts, names, k)
        return stmts

    def _undef_guard(self, stmts, names, k):
        return stmts

    def _cut_seq_loop(self, n, k):
        """`for T in SEQ: body`  ==>  `__seqK = SEQ; for __ixK in range(len(__seqK)): T = __seqK[__ixK]; body`
        (the index __ixK is visible to invariants as v.__dict__['__ix%d' % K], alias v.idx via loop spec 'index_name')"""
        seq, ix = "__seq%d" % k, "__ix%d" % k
        T = n.target.id
        pre = ast.Assign(targets=[_name(seq, ast.Store())], value=n.iter)
        bind = ast.Assign(targets=[_name(T, ast.Store())],
                          value=ast.Subscript(value=_name(seq), slice=_name(ix), ctx=ast.Load()))
        loop = ast.For(target=_name(ix, ast.Store()),
                       iter=_call(_name("range"), _call(_name("len"), _name(seq))),
                       body=[bind] + n.body, orelse=[])
        ast.copy_location(loop, n)
        ast.copy_location(pre, n)
        ast.fix_missing_locations(loop)
        self.order[id(loop)] = k
        out = self.visit_For_index(loop, k)
        return [pre] + out

    def visit_For_index(self, n, k):
        # same as the range branch of visit_For, without re-visiting the body
        T = n.target.id
        names, inplace = assigned_names(n.body)
        names = [x for x in names if x != T]
        return self._emit_for(n, k, T, names, inplace)

    def visit_While(self, n):
        k = self.order.get(id(n))
        self.generic_visit(n)
        if k not in self.cut:
            return n
        if n.orelse:
            raise Unsupported("while-else in a cut loop")
        names, inplace = assigned_names(n.body)
        self.info[k] = dict(kind="while", names=names, inplace=[ast.unparse(e) for e in inplace],
                            header=ast.unparse(n.test), lineno=n.lineno)
        K = ast.Constant(k)
        brk = "__brk%d" % k
        body = [_BreakRewriter(brk).visit(copy.deepcopy(s)) for s in n.body]
        flat = []
        for s in body:
            flat.extend(s if isinstance(s, list) else [s])
        stmts = []
        stmts.append(ast.Expr(_call(_pv("inv_check"), K, ast.Constant("init"), _locals())))
        if names:
            tgt = ast.Tuple(elts=[_name(x, ast.Store()) for x in names], ctx=ast.Store())
            stmts.append(ast.Assign(targets=[tgt], value=_call(_pv("havoc"), K, _locals(),
                                    ast.List(elts=[ast.Constant(x) for x in names], ctx=ast.Load()),
                                    ast.List(elts=[ast.Constant(ast.unparse(e)) for e in inplace], ctx=ast.Load()))))
        else:
            stmts.append(ast.Expr(_call(_pv("havoc"), K, _locals(), ast.List(elts=[], ctx=ast.Load()),
                                        ast.List(elts=[ast.Constant(ast.unparse(e)) for e in inplace], ctx=ast.Load()))))
        it_body = []
        it_body.append(ast.Expr(_call(_pv("assume_inv"), K, _locals())))
        it_body.append(ast.If(test=ast.UnaryOp(op=ast.Not(), operand=n.test), body=[ast.Expr(_call(_pv("infeasible")))], orelse=[]))
        it_body.append(ast.Assign(targets=[_name(brk, ast.Store())], value=ast.Constant(False)))
        it_body.append(ast.For(target=_name("__once", ast.Store()), iter=ast.Tuple(elts=[ast.Constant(0)], ctx=ast.Load()),
                               body=flat or [ast.Pass()], orelse=[]))
        it_body.append(ast.If(test=ast.UnaryOp(op=ast.Not(), operand=_name(brk)),
                              body=[ast.Expr(_call(_pv("inv_check"), K, ast.Constant("step"), _locals())),
                                    ast.Expr(_call(_pv("stop")))], orelse=[]))
        ex_body = [ast.Expr(_call(_pv("assume_inv"), K, _locals())),
                   ast.If(test=copy.deepcopy(n.test), body=[ast.Expr(_call(_pv("infeasible")))], orelse=[])]
        stmts.append(ast.If(test=_call(_pv("choice"), K), body=it_body, orelse=ex_body))
        return stmts


# ---------------------------------------------------------------------------
# run-time support object bound as __pv in the rewritten function
# ---------------------------------------------------------------------------
class Runtime:
    def __init__(self, loaded):
        self.loaded = loaded
        self.loops = loaded.loops
        self.ranges = {}
        self.entry_vals = {}

    def noop(self):
        pass

    def stop(self):
        raise PathStop()

    def infeasible(self):
        raise Infeasible()

    def choice(self, k):
        return eng().choice("loop%d" % k)

    def range_bounds(self, k, *args):
        if len(args) == 1:
            lo, hi = 0, args[0]
        elif len(args) == 2:
            lo, hi = args
        else:
            raise Unsupported("range() with step in a cut loop")
        lo, hi = _as_sint(lo), _as_sint(hi)
        self.ranges[k] = (lo, hi)
        return lo, hi

    def _inv(self, k, loc):
        spec = self.loops[k]
        with spec_eval():
            r = spec["inv"](NS(loc))
        if isinstance(r, (list, tuple)):
            return list(r)
        return [r]

    def inv_check(self, k, phase, loc):
        name = "%s:inv-%s@loop%d" % (self.loaded.short, phase, k)
        parts = self._inv(k, loc)
        if k in self.ranges:
            lo, hi = self.ranges[k]
            var = loc[self.loaded.info[k]["var"]]
            # the loop variable itself stays within [lo, max(lo,hi)]
            parts = parts + [_sb(_as_sint(var) >= lo)]
        for j, p in enumerate(parts):
            eng().prove(name + ("" if len(parts) == 1 else ".%d" % j), zbool(p), assume_after=True)

    def havoc(self, k, loc, names, inplace):
        spec = self.loops[k]
        freshers = spec.get("fresh", {})
        for src in inplace:
            if src in spec.get("frame_ok", ()):   # declared not modified (checked separately)
                continue
            try:
                obj = eval(src, self.loaded.ns, dict(loc))
            except Exception:
                continue
            if "." in src and "[" not in src and "(" not in src and not isinstance(obj, A.SArr):
                # attribute rebinding (obj.attr = value): havoc the attribute like a local
                base_src, attr = src.rsplit(".", 1)
                try:
                    base = eval(base_src, self.loaded.ns, dict(loc))
                    setattr(base, attr, freshers[src](obj, NS(loc)) if src in freshers else havoc_value(obj, attr))
                except Unsupported:
                    raise
                except Exception:
                    pass
                continue
            if src in freshers:
                freshers[src](obj, NS(loc))
            elif isinstance(obj, (A.SArr,)):
                obj.store.havoc("hv_" + src.replace(".", "_"))
            elif hasattr(obj, "havoc"):
                obj.havoc()
            else:
                raise Unsupported("cannot havoc in-place target %s (%s)" % (src, type(obj).__name__))
        out = []
        for nm in names:
            if nm in freshers:
                out.append(freshers[nm](loc.get(nm), NS(loc)))
                continue
            if nm not in loc:
                out.append(_UNBOUND)
                continue
            out.append(havoc_value(loc[nm], nm))
        return tuple(out)

    def assume_iter(self, k, loc):
        lo, hi = self.ranges[k]
        var = _as_sint(loc[self.loaded.info[k]["var"]])
        eng().assume(zbool(var >= lo))
        eng().assume(zbool(var < hi))
        for p in self._inv(k, loc):
            eng().assume(zbool(p))

    def assume_inv(self, k, loc):
        for p in self._inv(k, loc):
            eng().assume(zbool(p))

    def assume_exit(self, k, loc):
        lo, hi = self.ranges[k]
        var = _as_sint(loc[self.loaded.info[k]["var"]])
        eng().assume(zbool(var == ite(hi >= lo, hi, lo)))
        for p in self._inv(k, loc):
            eng().assume(zbool(p))

    def exit_var(self, k, loc):
        lo, hi = self.ranges[k]
        var = loc[self.loaded.info[k]["var"]]
        # Python leaves the last iterated value in the loop variable (only meaningful if the loop ran)
        return var - 1


class _Unbound:
    def __repr__(self):
        return "<unbound local>"

    def _boom(self, *a, **k):
        raise Unsupported("use of a local that is unbound at loop entry (assigned only inside a cut loop)")
    __add__ = __radd__ = __sub__ = __getitem__ = __bool__ = __lt__ = __gt__ = __call__ = _boom


_UNBOUND = _Unbound()


def _sb(x):
    return x if isinstance(x, SBool) else SBool(zbool(x))


def _as_sint(x):
    if isinstance(x, SInt):
        return x
    if isinstance(x, SBV):
        return x.as_int()
    if isinstance(x, SReal):
        raise TypeError("'float' object cannot be interpreted as an integer")
    if isinstance(x, float):
        raise TypeError("'float' object cannot be interpreted as an integer")
    import numpy as _np
    if isinstance(x, (_np.floating,)):
        raise TypeError("'numpy.float64' object cannot be interpreted as an integer")
    return SInt(int(x))


def havoc_value(v, hint="h"):
    import numpy as _np
    if isinstance(v, bool) or isinstance(v, SBool) or isinstance(v, _np.bool_):
        return SBool(fresh(z3.BoolSort(), hint))
    if isinstance(v, (int, SInt, _np.integer)):
        return SInt(fresh(z3.IntSort(), hint))
    if isinstance(v, (float, SReal, _np.floating)):
        return SReal(fresh(z3.RealSort(), hint))
    if isinstance(v, SBV):
        return SBV(fresh(z3.BitVecSort(v.bits), hint), v.bits, v.signed)
    if isinstance(v, A.SArr):
        return A.SArr.symbolic(v.kind, fresh(z3.IntSort(), hint + "_n"), hint)
    if hasattr(v, "havoc_copy"):
        return v.havoc_copy(hint)
    if v is None or v is _UNBOUND:
        return v
    raise Unsupported("cannot havoc local %s of type %s (give loops[k]['fresh'])" % (hint, type(v).__name__))


# ---------------------------------------------------------------------------
# builtin shims
# ---------------------------------------------------------------------------
def s_len(x):
    if isinstance(x, A.SArr):
        return x.slen()
    if hasattr(x, "slen"):
        return x.slen()
    return len(x)


def s_range(*args):
    if any(isinstance(a, (SReal, float)) for a in args):
        raise TypeError("'float' object cannot be interpreted as an integer")
    if any(isinstance(a, (SInt, SBV)) for a in args):
        cs = []
        for a in args:
            a2 = _as_sint(a)
            zz = z3.simplify(a2.z)
            if not z3.is_int_value(zz):
                raise Unsupported("range() over a symbolic bound in a loop without contract invariant")
            cs.append(zz.as_long())
        return range(*cs)
    return range(*args)


def s_int(x=0, *a):
    if isinstance(x, (SInt, SReal, SBV, SBool)):
        return trunc_int(x)
    if hasattr(x, "s_int"):
        return x.s_int()
    return int(x, *a)


def s_float(x=0.0):
    if isinstance(x, (SInt, SReal, SBV, SBool)):
        return to_real(x)
    return float(x)


def s_bool(x=False):
    if isinstance(x, SBool):
        return x
    if isinstance(x, (SInt, SReal, SBV)):
        return x != 0
    return bool(x)


def s_abs(x):
    return abs(x)


def s_min(*args, **kw):
    if len(args) == 1:
        if isinstance(args[0], A.SArr):
            return args[0].min()
        args = tuple(args[0])
    if any(isinstance(a, (SInt, SReal, SBV)) for a in args):
        r = args[0]
        for a in args[1:]:
            r = ite(a < r, a, r)
        return r
    return min(*args, **kw)


def s_max(*args, **kw):
    if len(args) == 1:
        if isinstance(args[0], A.SArr):
            return args[0].max()
        args = tuple(args[0])
    if any(isinstance(a, (SInt, SReal, SBV)) for a in args):
        r = args[0]
        for a in args[1:]:
            r = ite(a > r, a, r)
        return r
    return max(*args, **kw)


def s_sum(x, start=0):
    if isinstance(x, A.SArr):
        return x.sum() + start if start != 0 else x.sum()
    return sum(x, start)


def s_round(x, nd=None):
    if isinstance(x, (SReal,)):
        raise Unsupported("round() on symbolic real")
    return round(x) if nd is None else round(x, nd)


_VIRTUAL = None


def s_isinstance(x, t):
    import numpy as np
    ts = t if isinstance(t, tuple) else (t,)
    back = {s_int: int, s_float: float, s_bool: bool}
    ts = tuple(back.get(tt, tt) for tt in ts)
    t = ts if isinstance(t, tuple) else ts[0]
    from .proxies import SPyInt
    if isinstance(x, SPyInt):
        return int in ts
    for tt in ts:
        if isinstance(x, SInt) and tt is int:
            return True
        if isinstance(x, SBool) and tt in (bool, int):
            return True
        if isinstance(x, SReal) and tt is float:
            return True
        if isinstance(x, SBV) and tt in (np.integer, getattr(np, x.dtype_name)):
            return True
        if isinstance(x, A.SArr) and tt is np.ndarray:
            return True
        v = getattr(x, "_virtual_types", ())
        if tt in v:
            return True
    if isinstance(x, (SInt, SBool, SReal, SBV, A.SArr)):
        return False
    return isinstance(x, t)


BUILTIN_SHIMS = dict(len=s_len, range=s_range, int=s_int, float=s_float, abs=s_abs, min=s_min, max=s_max,
                     sum=s_sum, isinstance=s_isinstance, bool=s_bool, round=s_round)


# ---------------------------------------------------------------------------
# loading
# ---------------------------------------------------------------------------
class Loaded:
    pass


_COMPILED = {}


def loop_headers(qual):
    modname, path = qual.split(":")
    mod = importlib.import_module(modname)
    with open(mod.__file__) as f:
        tree = ast.parse(f.read())
    fn = find_function(tree, path)
    return [ast.unparse(n.iter) if isinstance(n, ast.For) else ast.unparse(n.test) for n in loops_preorder(fn)]


def _compile(qual, cut_ordinals):
    key = (qual, tuple(sorted(cut_ordinals)))
    if key in _COMPILED:
        return _COMPILED[key]
    modname, path = qual.split(":")
    mod = importlib.import_module(modname)
    filename = mod.__file__
    with open(filename) as f:
        src = f.read()
    tree = ast.parse(src, filename)
    fn = find_function(tree, path)
    fn = copy.deepcopy(fn)
    fn.decorator_list = []
    all_loops = loops_preorder(fn)
    for k in cut_ordinals:
        if k >= len(all_loops):
            raise LookupError("%s: contract names loop %d but the function has %d loops" % (qual, k, len(all_loops)))
    headers = [ast.unparse(n.iter) if isinstance(n, ast.For) else ast.unparse(n.test) for n in all_loops]
    lines = (fn.lineno, fn.end_lineno)
    cutter = Cutter(fn, cut_ordinals)
    new_fn = cutter.visit(fn)
    module = ast.Module(body=[new_fn], type_ignores=[])
    ast.fix_missing_locations(module)
    code = compile(module, filename, "exec")
    out = dict(mod=mod, filename=filename, code=code, name=fn.name, info=cutter.info, n_loops=len(all_loops),
               headers=headers, source=ast.unparse(module), lines=lines, path=path)
    _COMPILED[key] = out
    return out


def load(qual, loops=None, shims=None, extra_globals=None, int_mode="math"):
    """qual = 'package.module:func' or 'package.module:Class.method'.
    loops: {ordinal: dict(inv=callable(NS)->SBool|[SBool], fresh={name: fn})}.
    The source is parsed, cut and compiled once per process (it cannot change during a run); the namespace,
    shims and run-time object are rebuilt for every path."""
    from . import npshim
    loops = loops or {}
    if any(isinstance(k, str) for k in loops):
        # loops may be keyed by their header text ("range(1, grow + 1)"): robust against unrelated loops being added or removed
        hdrs = loop_headers(qual)
        resolved = {}
        for k, v in loops.items():
            if isinstance(k, str):
                hits = [i for i, h in enumerate(hdrs) if h == k]
                if len(hits) != 1:
                    hits = [i for i, h in enumerate(hdrs) if k in h]      # a distinctive fragment of the header is enough
                if len(hits) != 1:
                    raise LookupError("%s: loop header %r matches %d loops (headers: %r)" % (qual, k, len(hits), hdrs))
                resolved[hits[0]] = v
            else:
                resolved[k] = v
        loops = resolved
    c = _compile(qual, loops.keys())
    mod = c["mod"]
    L = Loaded()
    L.qual, L.short = qual, c["path"]
    L.filename = c["filename"]
    L.loops = loops
    L.info = c["info"]
    L.n_loops = c["n_loops"]
    L.loop_headers = c["headers"]
    L.rewritten_source = c["source"]
    L.original_lines = c["lines"]
    ns = dict(mod.__dict__)
    ns.update(BUILTIN_SHIMS)
    np_shim = npshim.NumpyShim(int_mode=int_mode)
    ns["np"] = np_shim
    ns["__pyvc_import__"] = npshim.make_importer(np_shim, shims or {})
    if shims:
        for key, val in shims.items():
            if "." not in key and ":" not in key:
                ns[key] = val
    if extra_globals:
        ns.update(extra_globals)
    L.ns = ns
    rt = Runtime(L)
    ns["__pv"] = rt
    L.runtime = rt
    exec(c["code"], ns)
    L.fn = ns[c["name"]]
    return L
