"""Symbolic 1-D / 2-D arrays with symbolic length and a numpy-like API (A-mode containers).

An SArr is a window (offset, length) on a shared Store.  A Store is either a
z3 array term (symbolic inputs, havoc'd state, results of writes) or a Python
closure index -> term (results of element-wise operators), materialised as a
z3 Lambda only when an array *term* is needed (SUM, whole-array equality).

Index-bounds obligations are emitted at the access (`safety:index`), a
symbolic negative index or slice start is NOT silently wrapped: it is an
obligation (`safety:index`, `safety:slice-lo`), so silent wrap-around is visible.
"""
import z3
from .engine import eng, Unsupported, _z
from .proxies import (SBool, SInt, SReal, SBV, zbool, _num, fresh, trunc_int, to_real)


# ---------------------------------------------------------------------------
# element kinds
# ---------------------------------------------------------------------------
class Kind:
    def __init__(self, name):
        self.name = name
        if name == "int":
            self.sort = z3.IntSort()
        elif name == "real":
            self.sort = z3.RealSort()
        elif name == "bool":
            self.sort = z3.BoolSort()
        elif name.startswith("int") or name.startswith("uint"):
            self.signed = name.startswith("int")
            self.bits = int(name[3:] if self.signed else name[4:])
            self.sort = z3.BitVecSort(self.bits)
        else:
            raise Unsupported("kind " + name)

    @property
    def is_bv(self):
        return self.name not in ("int", "real", "bool")

    def wrap(self, zz):
        if self.name == "int":
            return SInt(zz)
        if self.name == "real":
            return SReal(zz)
        if self.name == "bool":
            return SBool(zz)
        return SBV(zz, self.bits, self.signed)

    def lift(self, v):
        """numpy assignment semantics: value stored into an array of this kind."""
        if self.name == "bool":
            return zbool(v)
        if self.name == "real":
            zz, k = _num(v)
            return z3.ToReal(zz) if k == "int" else zz
        if self.name == "int":
            if isinstance(v, SReal):
                return trunc_int(v).z
            zz, k = _num(v)
            if k == "real":
                return trunc_int(SReal(zz)).z
            return zz
        # bit-vector kinds
        from .proxies import SPyInt
        if isinstance(v, SPyInt):
            # a Python int stored into a numpy integer array: must fit (NumPy 2 raises OverflowError)
            lo, hi = (-(1 << (self.bits - 1)), (1 << (self.bits - 1)) - 1) if self.signed else (0, (1 << self.bits) - 1)
            fits = z3.And(v.z >= max(lo, -(1 << 63)), v.z <= min(hi, (1 << 63) - 1))
            if not eng().decide(fits):
                raise OverflowError("Python integer out of bounds for %s" % self.name)
            return v.cast(self.bits, self.signed).z
        if isinstance(v, SBV):
            return v.cast(self.bits, self.signed).z
        if isinstance(v, SBool):
            return z3.If(v.z, z3.BitVecVal(1, self.bits), z3.BitVecVal(0, self.bits))
        if isinstance(v, bool):
            v = int(v)
        import numpy as _np
        if isinstance(v, (int, _np.integer)):
            v = int(v)
            lo, hi = (-(1 << (self.bits - 1)), (1 << (self.bits - 1)) - 1) if self.signed else (0, (1 << self.bits) - 1)
            if not (lo <= v <= hi):
                raise OverflowError("Python integer %d out of bounds for %s" % (v, self.name))
            return z3.BitVecVal(v, self.bits)
        if isinstance(v, SInt):
            lo, hi = (-(1 << (self.bits - 1)), (1 << (self.bits - 1)) - 1) if self.signed else (0, (1 << self.bits) - 1)
            if not eng().decide(z3.And(v.z >= lo, v.z <= hi)):
                raise OverflowError("Python integer out of bounds for %s" % self.name)
            return z3.Int2BV(v.z, self.bits)
        raise Unsupported("cannot store %r into %s array" % (v, self.name))

    def __eq__(self, o):
        return isinstance(o, Kind) and o.name == self.name

    def __hash__(self):
        return hash(self.name)

    def __repr__(self):
        return "Kind(%s)" % self.name


INT, REAL, BOOL = Kind("int"), Kind("real"), Kind("bool")
INT64, UINT64, INT32, INT16 = Kind("int64"), Kind("uint64"), Kind("int32"), Kind("int16")


def kind_of_value(v):
    from .proxies import SPyInt
    if isinstance(v, SPyInt):
        return INT
    if isinstance(v, SBool) or isinstance(v, bool):
        return BOOL
    if isinstance(v, SInt) or isinstance(v, int):
        return INT
    if isinstance(v, SReal) or isinstance(v, float):
        return REAL
    if isinstance(v, SBV):
        return Kind(v.dtype_name)
    import numpy as _np
    if isinstance(v, _np.bool_):
        return BOOL
    if isinstance(v, _np.integer):
        return INT
    if isinstance(v, _np.floating):
        return REAL
    raise Unsupported("kind of %r" % (v,))


def promote(k1, k2):
    if k1 == k2:
        return k1
    names = {k1.name, k2.name}
    if "real" in names:
        return REAL
    if names <= {"int", "bool"}:
        return INT
    if k1.is_bv and k2.name in ("int", "bool"):
        return k1          # weak Python scalar / bool
    if k2.is_bv and k1.name in ("int", "bool"):
        return k2
    if k1.is_bv and k2.is_bv:
        if k1.signed == k2.signed:
            return k1 if k1.bits >= k2.bits else k2
        raise Unsupported("mixed signed/unsigned arrays (%s,%s): numpy promotes to float64" % (k1.name, k2.name))
    raise Unsupported("promote %s %s" % (k1, k2))


class DType:
    """What `.dtype` returns."""
    def __init__(self, kind):
        self._k = kind
        import numpy as np
        m = {"int": np.int64, "real": np.float64, "bool": np.bool_, "int64": np.int64, "uint64": np.uint64,
             "int32": np.int32, "int16": np.int16}
        self.type = m[kind.name]
        self.kind = np.dtype(self.type).kind
        self.name = np.dtype(self.type).name

    def __eq__(self, o):
        import numpy as np
        try:
            return np.dtype(self.type) == np.dtype(o)
        except TypeError:
            return False

    def __hash__(self):
        return hash(self.name)


# ---------------------------------------------------------------------------
# storage
# ---------------------------------------------------------------------------
class Store:
    _count = 0

    def __init__(self, kind, arr=None, fn=None):
        self.kind = kind
        self.arr = arr
        self.fn = fn
        Store._count += 1
        self.ident = Store._count

    def get(self, i):
        if self.arr is not None:
            return z3.Select(self.arr, i)
        return self.fn(i)

    def term(self):
        if self.arr is None:
            q = z3.Int(eng().fresh_name("lam"))
            self.arr = z3.Lambda([q], self.fn(q))
            self.fn = None
        return self.arr

    def put(self, i, v):
        self.arr = z3.Store(self.term(), i, v)

    def havoc(self, hint="hv"):
        self.arr = fresh(z3.ArraySort(z3.IntSort(), self.kind.sort), hint)
        self.fn = None


def _zi(x):
    """index-like -> z3 Int"""
    if isinstance(x, SInt):
        return x.z
    if isinstance(x, SBV):
        return x.as_int().z
    if isinstance(x, bool):
        raise Unsupported("bool index")
    import numpy as _np
    if isinstance(x, (int, _np.integer)):
        return z3.IntVal(int(x))
    if isinstance(x, z3.ArithRef):
        return x
    raise Unsupported("index %r" % (x,))


def _is_concrete(zz):
    return z3.is_int_value(z3.simplify(zz))


def _cval(zz):
    return z3.simplify(zz).as_long()


def zmax(a, b):
    return z3.If(a >= b, a, b)


def zmin(a, b):
    return z3.If(a <= b, a, b)


_SUM = {}


def SUMF(kind):
    """SUM_kind(A, lo, hi) = sum of A[lo..hi-1] (uninterpreted; axioms supplied by contracts as lemmas)."""
    if kind.name not in _SUM:
        _SUM[kind.name] = z3.Function("SUM_" + kind.name, z3.ArraySort(z3.IntSort(), kind.sort), z3.IntSort(),
                                      z3.IntSort(), kind.sort)
    return _SUM[kind.name]


class SArr:
    __array_priority__ = 2000
    ndim = 1

    def __init__(self, store, off, n, readonly=False):
        self.store = store
        self.off = _zi(off)
        self.n = _zi(n)
        self.kind = store.kind

    # -- construction -------------------------------------------------
    @staticmethod
    def symbolic(kind, n, hint="a"):
        st = Store(kind, arr=fresh(z3.ArraySort(z3.IntSort(), kind.sort), hint))
        return SArr(st, 0, n)

    @staticmethod
    def from_fn(kind, n, fn):
        return SArr(Store(kind, fn=fn), 0, n)

    @staticmethod
    def const(kind, n, v):
        zz = kind.lift(v)
        return SArr.from_fn(kind, n, lambda i: zz)

    @staticmethod
    def from_list(items, kind=None):
        if kind is None:
            kind = kind_of_value(items[0]) if items else REAL
            for it in items[1:]:
                kind = promote(kind, kind_of_value(it))
        zs = [kind.lift(v) for v in items]
        arr = z3.K(z3.IntSort(), zs[0]) if zs else fresh(z3.ArraySort(z3.IntSort(), kind.sort), "empty")
        for j, zz in enumerate(zs):
            arr = z3.Store(arr, j, zz)
        return SArr(Store(kind, arr=arr), 0, len(zs))

    # -- basic attributes -----------------------------------------------
    @property
    def size(self):
        return _mk_int(self.n)

    @property
    def shape(self):
        return (_mk_int(self.n),)

    @property
    def dtype(self):
        return DType(self.kind)

    def __len__(self):
        if _is_concrete(self.n):
            return _cval(self.n)
        raise Unsupported("len() of a symbolic-length array must go through the engine's len")

    def slen(self):
        return _mk_int(self.n)

    def __iter__(self):
        if not _is_concrete(self.n):
            raise Unsupported("iteration over a symbolic-length array (loop needs a contract invariant)")
        for j in range(_cval(self.n)):
            yield self.kind.wrap(self.at(z3.IntVal(j)))

    def tolist(self):
        out = []
        for v in self:
            out.append(v.as_int() if isinstance(v, SBV) else v)
        return out

    def at(self, i):
        """raw element term, no bounds obligation"""
        return self.store.get(z3.simplify(self.off + _zi(i)))

    def term(self):
        """z3 array term A with A[off+i] the i-th element"""
        return self.store.term()

    def copy(self):
        st = self.store
        off = self.off
        if st.arr is not None and _is_concrete(off) and _cval(off) == 0:
            return SArr(Store(self.kind, arr=st.arr), 0, self.n)
        snap_arr, snap_fn = st.arr, st.fn
        if snap_arr is not None:
            return SArr(Store(self.kind, fn=lambda i: z3.Select(snap_arr, off + i)), 0, self.n)
        return SArr(Store(self.kind, fn=lambda i: snap_fn(off + i)), 0, self.n)

    def flatten(self):
        return self.copy()

    def astype(self, dt):
        k = kind_from_dtype(dt)
        src = self.snapshot()
        sk = self.kind
        return SArr.from_fn(k, self.n, lambda i: k.lift(sk.wrap(src(i))))

    def snapshot(self):
        """closure i -> element term, frozen at the current state"""
        st, off = self.store, self.off
        if st.arr is not None:
            a = st.arr
            return lambda i: z3.Select(a, off + i)
        f = st.fn
        return lambda i: f(off + i)

    # -- indexing -------------------------------------------------------
    def _bounds(self, zi, what="index"):
        if _is_concrete(zi) and _is_concrete(self.n):
            c, n = _cval(zi), _cval(self.n)
            if c < -n or c >= n:
                raise IndexError("index %d is out of bounds for axis 0 with size %d" % (c, n))
            return z3.IntVal(c + n if c < 0 else c)
        if _is_concrete(zi) and _cval(zi) < 0:
            c = _cval(zi)
            if not eng().decide(self.n >= -c):
                raise IndexError("index %d is out of bounds" % c)
            return self.n + c
        if not eng().decide(z3.And(zi >= 0, zi < self.n)):
            # Python would either wrap (negative) or raise IndexError: both are reported
            if eng().decide(z3.And(zi < 0, zi >= -self.n)):
                eng().fail("safety:index-negative-wrap", "symbolic index may be negative and wrap silently")
                return zi + self.n
            raise IndexError("index out of bounds (symbolic)")
        return zi

    def __getitem__(self, key):
        if isinstance(key, tuple) and len(key) == 1:
            key = key[0]
        if isinstance(key, slice):
            lo, ln = self._slice(key)
            return SArr(self.store, self.off + lo, ln)
        if isinstance(key, SArr):
            if key.kind == BOOL:
                return self._mask_get(key)
            return self._gather(key)
        if isinstance(key, (list,)):
            return self._gather(SArr.from_list(key, INT))
        if key is Ellipsis:
            return self
        zi = self._bounds(_zi(key))
        return self.kind.wrap(self.at(zi))

    def __setitem__(self, key, value):
        if isinstance(key, tuple) and len(key) == 1:
            key = key[0]
        if isinstance(key, slice):
            lo, ln = self._slice(key)
            self._assign_range(lo, ln, value)
            return
        if isinstance(key, SArr):
            if key.kind == BOOL:
                self._mask_set(key, value)
            else:
                self._scatter(key, value)
            return
        if key is Ellipsis:
            self._assign_range(z3.IntVal(0), self.n, value)
            return
        zi = self._bounds(_zi(key))
        self.store.put(z3.simplify(self.off + zi), self.kind.lift(value))

    def _slice(self, sl):
        if sl.step not in (None, 1):
            raise Unsupported("slice step")
        n = self.n
        if sl.start is None:
            lo = z3.IntVal(0)
        else:
            s = _zi(sl.start)
            if _is_concrete(s):
                c = _cval(s)
                lo = zmin(z3.IntVal(c), n) if c >= 0 else zmax(n + c, z3.IntVal(0))
            else:
                eng().prove("safety:slice-lo", s >= 0, "symbolic slice start must not be negative (silent wrap)")
                lo = zmin(s, n)
        if sl.stop is None:
            hi = n
        else:
            s = _zi(sl.stop)
            if _is_concrete(s):
                c = _cval(s)
                hi = zmin(z3.IntVal(c), n) if c >= 0 else zmax(n + c, z3.IntVal(0))
            else:
                eng().prove("safety:slice-hi", s >= 0, "symbolic slice stop must not be negative (silent wrap)")
                hi = zmin(s, n)
        ln = zmax(hi - lo, z3.IntVal(0))
        return z3.simplify(lo), z3.simplify(ln)

    def _assign_range(self, lo, ln, value):
        """self[lo:lo+ln] = value (scalar broadcast or equal-length array)"""
        base = self.store.term()
        off = self.off
        q = z3.Int(eng().fresh_name("w"))
        inside = z3.And(q >= off + lo, q < off + lo + ln)
        if isinstance(value, SArr):
            if not eng().decide(value.n == ln):
                if eng().decide(value.n == 1):
                    v0 = self.kind.lift(value.kind.wrap(value.at(z3.IntVal(0))))
                    self.store.arr = z3.Lambda([q], z3.If(inside, v0, z3.Select(base, q)))
                    return
                raise ValueError("could not broadcast input array into shape")
            src = value.snapshot()
            vk = value.kind
            k = self.kind
            body = z3.If(inside, k.lift(vk.wrap(src(q - off - lo))), z3.Select(base, q))
        else:
            body = z3.If(inside, self.kind.lift(value), z3.Select(base, q))
        self.store.arr = z3.Lambda([q], body)

    # boolean masks ---------------------------------------------------
    def _mask_get(self, mask):
        """x[mask]: elements where mask is true, in order (strictly increasing enumeration)."""
        eng().prove("safety:mask-length", mask.n == self.n, "boolean index length must match")
        idx = mask.nonzero()[0]
        out = self._gather(idx, checked=False)
        out._gathered_from = (self, mask)
        nz = getattr(self, "_nz_of", None)
        if nz is not None:
            # self enumerates the true positions of an outer mask (self = outer.nonzero()[0]); self[mask] then enumerates the positions q with
            # outer[q] and mask[rank(q)]: remembered so that  target[self[mask]] = scalar  can be modelled
            out._nz_sub = (nz[0], nz[1], mask)
        return out

    def _mask_set(self, mask, value):
        eng().prove("safety:mask-length", mask.n == self.n, "boolean index length must match")
        base = self.store.term()
        off, n = self.off, self.n
        m = mask.snapshot()
        q = z3.Int(eng().fresh_name("w"))
        inside = z3.And(q >= off, q < off + n, m(q - off))
        if isinstance(value, SArr):
            # value has one entry per true position: needs rank(); only the "same-mask gather" idiom is modelled
            tag = getattr(value, "_gathered_from", None)
            if tag is not None and tag[1] is mask:
                src = tag[0].snapshot()
                vk, k = tag[0].kind, self.kind
                body = z3.If(inside, k.lift(vk.wrap(src(q - off))), z3.Select(base, q))
            else:
                raise Unsupported("masked assignment from an array that is not x[mask] of the same mask")
        else:
            body = z3.If(inside, self.kind.lift(value), z3.Select(base, q))
        self.store.arr = z3.Lambda([q], body)

    def _gather(self, idx, checked=True):
        if checked:
            q = z3.Int(eng().fresh_name("g"))
            eng().prove("safety:index", z3.ForAll([q], z3.Implies(z3.And(q >= 0, q < idx.n),
                        z3.And(_as_int(idx, q) >= 0, _as_int(idx, q) < self.n))), "fancy index in bounds")
        src = self.snapshot()
        isrc = idx
        out = SArr.from_fn(self.kind, idx.n, lambda i: src(_as_int(isrc, i)))
        if hasattr(idx, "_rank"):
            out._rank = idx._rank
        return out

    def _scatter(self, idx, value):
        """x[idx] = value for an index array that is (a) a permutation from the argsort model (inverse function known) or
        (b) the enumeration of a mask from the nonzero model (rank function known)"""
        base = self.store.term()
        off, n = self.off, self.n
        q = z3.Int(eng().fresh_name("w"))
        k = self.kind
        inv = getattr(idx, "_perm_inv", None)
        if inv is not None:
            eng().prove("safety:index", idx.n == n, "permutation index array must have the target's length")
            if isinstance(value, SArr):
                eng().prove("safety:broadcast", value.n == idx.n, "value length must match the index array")
                vs, vk = value.snapshot(), value.kind
                body = z3.If(z3.And(q >= off, q < off + n), k.lift(vk.wrap(vs(inv(q - off)))), z3.Select(base, q))
            else:
                body = z3.If(z3.And(q >= off, q < off + n), k.lift(value), z3.Select(base, q))
            self.store.arr = z3.Lambda([q], body)
            return
        nz = getattr(idx, "_nz_of", None)
        if nz is not None:
            mask, rank = nz
            eng().prove("safety:index", mask.n <= n, "mask-derived indices must lie inside the target")
            m = mask.snapshot()
            mk = mask.kind
            hit = z3.And(q >= off, q < off + mask.n, zbool(mk.wrap(m(q - off))))
            if isinstance(value, SArr):
                eng().prove("safety:broadcast", value.n == idx.n, "value length must match the index array")
                vs, vk = value.snapshot(), value.kind
                body = z3.If(hit, k.lift(vk.wrap(vs(rank(q - off)))), z3.Select(base, q))
            else:
                body = z3.If(hit, k.lift(value), z3.Select(base, q))
            self.store.arr = z3.Lambda([q], body)
            return
        nzm = getattr(idx, "_nz_map", None)
        if nzm is not None and not isinstance(value, SArr):
            mask, mp = nzm
            m = mask.snapshot()
            p = z3.Int(eng().fresh_name("sp"))
            sel = lambda pp: z3.And(pp >= 0, pp < mask.n, zbool(mask.kind.wrap(m(pp))))
            eng().prove("safety:index", z3.ForAll([p], z3.Implies(sel(p), z3.And(mp(p) >= 0, mp(p) < n))), "derived fancy index in bounds")
            p2 = z3.Int(eng().fresh_name("sp"))
            hit = z3.And(q >= off, q < off + n, z3.Exists([p2], z3.And(sel(p2), mp(p2) == q - off)))
            self.store.arr = z3.Lambda([q], z3.If(hit, k.lift(value), z3.Select(base, q)))
            return
        sub = getattr(idx, "_nz_sub", None)
        if sub is not None and not isinstance(value, SArr):
            outer, rank, inner = sub
            eng().prove("safety:index", outer.n <= n, "mask-derived indices must lie inside the target")
            mo, mi = outer.snapshot(), inner.snapshot()
            hit = z3.And(q >= off, q < off + outer.n, zbool(outer.kind.wrap(mo(q - off))), zbool(inner.kind.wrap(mi(rank(q - off)))))
            self.store.arr = z3.Lambda([q], z3.If(hit, k.lift(value), z3.Select(base, q)))
            return
        raise Unsupported("fancy-index assignment with an index array of unknown structure")

    # -- element-wise operators -------------------------------------------
    def _ew(self, o, f, kind=None, rev=False):
        a = self.snapshot()
        ak = self.kind
        if isinstance(o, SArr):
            if not eng().decide(o.n == self.n):
                if eng().decide(o.n == 1):
                    b0 = o.kind.wrap(o.at(z3.IntVal(0)))
                    return self._ew(b0, f, kind, rev)
                if eng().decide(self.n == 1):
                    return o._ew(ak.wrap(self.at(z3.IntVal(0))), f, kind, not rev)
                raise ValueError("operands could not be broadcast together")
            b = o.snapshot()
            bk = o.kind

            def elem(i):
                x, y = ak.wrap(a(i)), bk.wrap(b(i))
                return f(y, x) if rev else f(x, y)
        else:
            def elem(i):
                x = ak.wrap(a(i))
                return f(o, x) if rev else f(x, o)
        # determine result kind from a probe element
        probe = elem(z3.Int("probe!"))
        k = kind or kind_of_value(probe)

        def fn(i):
            r = elem(i)
            return _z(r) if not isinstance(r, (bool, int, float)) else k.lift(r)
        out = SArr.from_fn(k, self.n, fn)
        if not isinstance(o, SArr) and k is INT:
            # an index array derived element-wise from the enumeration of a mask (idx = nonzero(mask)[0]; idx - c, maximum(idx, c), ...):
            # remembered as "position p of the mask |-> derived index", so that  target[derived] = scalar  can be modelled without the enumeration
            nz = getattr(self, "_nz_of", None)
            prev = getattr(self, "_nz_map", None)
            if nz is not None or prev is not None:
                mask = nz[0] if nz is not None else prev[0]
                pm = (lambda p: p) if nz is not None else prev[1]

                def mp(p, pm=pm):
                    x = ak.wrap(pm(p))
                    r = f(o, x) if rev else f(x, o)
                    return _z(r) if not isinstance(r, (bool, int, float)) else k.lift(r)
                out._nz_map = (mask, mp)
        return out

    def __add__(self, o): return self._ew(o, lambda x, y: x + y)
    def __radd__(self, o): return self._ew(o, lambda x, y: x + y, rev=True)
    def __sub__(self, o): return self._ew(o, lambda x, y: x - y)
    def __rsub__(self, o): return self._ew(o, lambda x, y: x - y, rev=True)
    def __mul__(self, o): return self._ew(o, lambda x, y: x * y)
    def __rmul__(self, o): return self._ew(o, lambda x, y: x * y, rev=True)
    def __truediv__(self, o): return self._ew(o, _np_truediv)
    def __rtruediv__(self, o): return self._ew(o, _np_truediv, rev=True)
    def __floordiv__(self, o): return self._ew(o, lambda x, y: x // y)
    def __mod__(self, o): return self._ew(o, lambda x, y: x % y)
    def __pow__(self, o): return self._ew(o, lambda x, y: x ** y)
    def __neg__(self): return self._ew(0, lambda x, y: -x)
    def __lshift__(self, o): return self._ew(o, lambda x, y: x << y)
    def __rshift__(self, o): return self._ew(o, lambda x, y: x >> y)
    def __and__(self, o): return self._ew(o, lambda x, y: x & y)
    def __rand__(self, o): return self._ew(o, lambda x, y: x & y, rev=True)
    def __or__(self, o): return self._ew(o, lambda x, y: x | y)
    def __ror__(self, o): return self._ew(o, lambda x, y: x | y, rev=True)
    def __xor__(self, o): return self._ew(o, lambda x, y: x ^ y)
    def __invert__(self): return self._ew(0, lambda x, y: ~x)
    def __lt__(self, o): return self._ew(o, lambda x, y: x < y)
    def __le__(self, o): return self._ew(o, lambda x, y: x <= y)
    def __gt__(self, o): return self._ew(o, lambda x, y: x > y)
    def __ge__(self, o): return self._ew(o, lambda x, y: x >= y)
    def __eq__(self, o): return self._ew(o, lambda x, y: x == y)
    def __ne__(self, o): return self._ew(o, lambda x, y: x != y)
    def __hash__(self): return id(self)
    def __abs__(self): return self._ew(0, lambda x, y: abs(x))

    def __iadd__(self, o):
        self._assign_range(z3.IntVal(0), self.n, self + o)
        return self

    def __isub__(self, o):
        self._assign_range(z3.IntVal(0), self.n, self - o)
        return self

    def __imul__(self, o):
        self._assign_range(z3.IntVal(0), self.n, self * o)
        return self

    def __itruediv__(self, o):
        self._assign_range(z3.IntVal(0), self.n, self / o)
        return self

    def __iand__(self, o):
        self._assign_range(z3.IntVal(0), self.n, self & o)
        return self

    def __ior__(self, o):
        self._assign_range(z3.IntVal(0), self.n, self | o)
        return self

    def __bool__(self):
        if eng().decide(self.n == 1):
            return bool(self.kind.wrap(self.at(z3.IntVal(0))))
        raise ValueError("The truth value of an array with more than one element is ambiguous")

    # -- reductions ---------------------------------------------------------
    def any(self):
        """exists i. a[i]   (Bool term; forking on it skolemises / instantiates)"""
        a = self.snapshot()
        k = self.kind
        q = z3.Int(eng().fresh_name("any"))
        body = zbool(k.wrap(a(q)))
        ex = z3.Exists([q], z3.And(q >= 0, q < self.n, body))
        return SBool(ex)

    def all(self):
        a = self.snapshot()
        k = self.kind
        q = z3.Int(eng().fresh_name("all"))
        body = zbool(k.wrap(a(q)))
        return SBool(z3.ForAll([q], z3.Implies(z3.And(q >= 0, q < self.n), body)))

    def sum(self, axis=None):
        if self.kind == BOOL:
            k = INT
            src = self.snapshot()
            st = Store(INT, fn=lambda i: z3.If(src(i - 0), z3.IntVal(1), z3.IntVal(0)))
            return INT.wrap(SUMF(INT)(st.term(), z3.IntVal(0), self.n))
        k = self.kind
        return k.wrap(z3.simplify(SUMF(k)(self.term(), self.off, z3.simplify(self.off + self.n))))

    def nonzero(self):
        """(idx,) with idx the strictly increasing enumeration of true positions (trusted model T-nonzero)."""
        eng().assumptions_used.add("T-nonzero")
        a = self.snapshot()
        k = self.kind
        cnt = fresh(z3.IntSort(), "nnz")
        idx = SArr.symbolic(INT, cnt, "nzidx")
        e = eng()
        q = z3.Int(e.fresh_name("nz"))
        p = z3.Int(e.fresh_name("nzp"))
        I = idx.store.arr
        e.assume(z3.And(cnt >= 0, cnt <= self.n))
        # each entry is a true position, strictly increasing
        e.assume(z3.ForAll([q], z3.Implies(z3.And(q >= 0, q < cnt),
                 z3.And(I[q] >= 0, I[q] < self.n, zbool(k.wrap(a(I[q]))))), patterns=[I[q]]))
        e.assume(z3.ForAll([q, p], z3.Implies(z3.And(q >= 0, q < p, p < cnt), I[q] < I[p]), patterns=[z3.MultiPattern(I[q], I[p])]))
        # every true position is enumerated (rank function)
        rank = z3.Function(e.fresh_name("rank"), z3.IntSort(), z3.IntSort())
        e.assume(z3.ForAll([q], z3.Implies(z3.And(q >= 0, q < self.n, zbool(k.wrap(a(q)))),
                 z3.And(rank(q) >= 0, rank(q) < cnt, I[rank(q)] == q)), patterns=[rank(q)]))
        idx._nz_of = (self, rank)
        idx._rank = rank
        return (idx,)

    def min(self):
        return self._extremum(lambda m, x: m <= x, "min")

    def max(self):
        return self._extremum(lambda m, x: m >= x, "max")

    def _extremum(self, rel, hint):
        eng().prove("safety:nonempty-reduce", self.n > 0)
        a = self.snapshot()
        m = fresh(self.kind.sort, hint)
        w = fresh(z3.IntSort(), hint + "at")
        q = z3.Int(eng().fresh_name("q"))
        mk = self.kind.wrap
        eng().assume(z3.And(w >= 0, w < self.n, a(w) == m))
        eng().assume(z3.ForAll([q], z3.Implies(z3.And(q >= 0, q < self.n), zbool(rel(mk(m), mk(a(q)))))))
        return mk(m)

    def argsort(self, kind=None):
        """T-argsort: a permutation that sorts (stable not assumed)."""
        eng().assumptions_used.add("T-argsort")
        e = eng()
        p = SArr.symbolic(INT, self.n, "perm")
        P = p.store.arr
        inv = z3.Function(e.fresh_name("pinv"), z3.IntSort(), z3.IntSort())
        q = z3.Int(e.fresh_name("q"))
        r = z3.Int(e.fresh_name("r"))
        a = self.snapshot()
        mk = self.kind.wrap
        e.assume(z3.ForAll([q], z3.Implies(z3.And(q >= 0, q < self.n), z3.And(P[q] >= 0, P[q] < self.n, inv(P[q]) == q)), patterns=[P[q]]))
        e.assume(z3.ForAll([q], z3.Implies(z3.And(q >= 0, q < self.n), z3.And(inv(q) >= 0, inv(q) < self.n, P[inv(q)] == q)), patterns=[inv(q)]))
        e.assume(z3.ForAll([q, r], z3.Implies(z3.And(q >= 0, q <= r, r < self.n), zbool(mk(a(P[q])) <= mk(a(P[r])))),
                           patterns=[z3.MultiPattern(P[q], P[r])]))
        p._perm_inv = inv
        e.ghost["last_argsort"] = p
        return p


def _as_int(arr, i):
    v = arr.kind.wrap(arr.at(i))
    if isinstance(v, SBV):
        return v.as_int().z
    return v.z


def _np_truediv(x, y):
    # numpy true division always yields float64; a zero divisor gives inf/nan with a warning, never an exception,
    # so no safety obligation is emitted (the quotient is then an unspecified real: z3's total division)
    e = eng()
    e.in_spec += 1
    try:
        return to_real(x) / to_real(y) if not isinstance(x, SReal) and not isinstance(y, SReal) else x / y
    finally:
        e.in_spec -= 1


def _mk_int(zz):
    zz = z3.simplify(zz)
    if z3.is_int_value(zz):
        return zz.as_long()
    return SInt(zz)


def kind_from_dtype(dt):
    import numpy as np
    if isinstance(dt, Kind):
        return dt
    if isinstance(dt, DType):
        return dt._k
    if hasattr(dt, "_np_type"):
        dt = dt._np_type
    nm = getattr(dt, "__name__", "")
    if nm in ("s_bool", "s_int", "s_float"):       # the builtin shims of amode stand for the builtins
        dt = {"s_bool": bool, "s_int": int, "s_float": float}[nm]
    if dt is None or dt is float:
        return REAL
    if dt is int:
        return INT64
    if dt is bool:
        return BOOL
    d = np.dtype(dt)
    if d.kind == "f":
        return REAL
    if d.kind == "b":
        return BOOL
    if d.kind in "iu":
        return Kind(d.name)
    raise Unsupported("dtype %r" % (dt,))


# ---------------------------------------------------------------------------
# 2-D arrays (functional store): shape (R, C), element (i, j)
# ---------------------------------------------------------------------------
def _norm_slice(sl, n, what="slice"):
    """Python slice semantics on an axis of (symbolic) length n -> (lo, length); symbolic negative bounds are obligations"""
    if sl.step not in (None, 1):
        raise Unsupported("slice step")

    def bound(s, default):
        if s is None:
            return default
        zz = _zi(s)
        if _is_concrete(zz):
            c = _cval(zz)
            return zmin(z3.IntVal(c), n) if c >= 0 else zmax(n + c, z3.IntVal(0))
        eng().prove("safety:slice-lo" if default is not n else "safety:slice-hi", zz >= 0,
                    "symbolic slice bound must not be negative (silent wrap)")
        return zmin(zz, n)
    lo = bound(sl.start, z3.IntVal(0))
    hi = bound(sl.stop, n)
    return z3.simplify(lo), z3.simplify(zmax(hi - lo, z3.IntVal(0)))


class SArr2:
    __array_priority__ = 2000
    ndim = 2
    _pyvc_symbolic = True

    def __init__(self, kind, R, C, fn):
        self.kind, self.R, self.C, self.fn = kind, _zi(R), _zi(C), fn

    @staticmethod
    def symbolic(kind, R, C, hint="m"):
        arr = fresh(z3.ArraySort(z3.IntSort(), z3.ArraySort(z3.IntSort(), kind.sort)), hint)
        return SArr2(kind, R, C, lambda i, j: z3.Select(z3.Select(arr, i), j))

    @staticmethod
    def const(kind, R, C, v):
        zz = kind.lift(v)
        return SArr2(kind, R, C, lambda i, j: zz)

    @property
    def shape(self):
        return (_mk_int(self.R), _mk_int(self.C))

    @property
    def size(self):
        return _mk_int(self.R * self.C)

    @property
    def dtype(self):
        return DType(self.kind)

    def at(self, i, j):
        return self.fn(_zi(i), _zi(j))

    def copy(self):
        return SArr2(self.kind, self.R, self.C, self.fn)

    def _axis(self, key, n, axis):
        """-> ('slice', lo, len) | ('index', i)"""
        if isinstance(key, slice):
            lo, ln = _norm_slice(key, n)
            return ("slice", lo, ln)
        zi = _zi(key)
        if not eng().decide(z3.And(zi >= 0, zi < n)):
            if eng().decide(z3.And(zi < 0, zi >= -n)):
                if _is_concrete(zi):
                    return ("index", z3.simplify(zi + n))
                eng().fail("safety:index-negative-wrap", "symbolic index may be negative and wrap silently")
                return ("index", zi + n)
            raise IndexError("index out of bounds for axis %d" % axis)
        return ("index", zi)

    def __getitem__(self, key):
        if not isinstance(key, tuple):
            key = (key, slice(None))
        a0 = self._axis(key[0], self.R, 0)
        a1 = self._axis(key[1], self.C, 1)
        f = self.fn
        if a0[0] == "index" and a1[0] == "index":
            return self.kind.wrap(f(a0[1], a1[1]))
        if a0[0] == "slice" and a1[0] == "slice":
            r0, c0 = a0[1], a1[1]
            return SArr2(self.kind, a0[2], a1[2], lambda i, j: f(r0 + i, c0 + j))
        if a0[0] == "index":
            r, c0 = a0[1], a1[1]
            return SArr.from_fn(self.kind, a1[2], lambda j: f(r, c0 + j))
        r0, c = a0[1], a1[1]
        return SArr.from_fn(self.kind, a0[2], lambda i: f(r0 + i, c))

    def __setitem__(self, key, value):
        if not isinstance(key, tuple):
            key = (key, slice(None))
        a0 = self._axis(key[0], self.R, 0)
        a1 = self._axis(key[1], self.C, 1)
        old = self.fn
        k = self.kind
        if a0[0] == "index" and a1[0] == "index":
            r, c, v = a0[1], a1[1], k.lift(value)
            self.fn = lambda i, j: z3.If(z3.And(i == r, j == c), v, old(i, j))
            return
        r0, h = (a0[1], a0[2]) if a0[0] == "slice" else (a0[1], z3.IntVal(1))
        c0, w = (a1[1], a1[2]) if a1[0] == "slice" else (a1[1], z3.IntVal(1))
        if isinstance(value, SArr2):
            if not eng().decide(z3.And(value.R == h, value.C == w)):
                raise ValueError("could not broadcast input array from shape (%s,%s) into shape (%s,%s)" % (value.R, value.C, h, w))
            vf, vk = value.fn, value.kind
            src = lambda i, j: k.lift(vk.wrap(vf(i - r0, j - c0)))
        elif isinstance(value, SArr):
            vs, vk = value.snapshot(), value.kind
            if a0[0] == "index":
                if not eng().decide(value.n == w):
                    raise ValueError("could not broadcast input array")
                src = lambda i, j: k.lift(vk.wrap(vs(j - c0)))
            elif a1[0] == "index":
                if not eng().decide(value.n == h):
                    raise ValueError("could not broadcast input array")
                src = lambda i, j: k.lift(vk.wrap(vs(i - r0)))
            else:
                if not eng().decide(value.n == w):
                    raise ValueError("could not broadcast input array")
                src = lambda i, j: k.lift(vk.wrap(vs(j - c0)))
        else:
            vz = k.lift(value)
            src = lambda i, j: vz
        self.fn = lambda i, j: z3.If(z3.And(i >= r0, i < r0 + h, j >= c0, j < c0 + w), src(i, j), old(i, j))

    def __hash__(self):
        return id(self)
