"""C18 -- great-circle distance and SDSS great-circle coordinates are geometrically exact."""
import types
import numpy as np
import z3
from pyvc.harness import FunctionContract, LemmaJob, register, JobResult
from pyvc.proxies import SInt, SReal, SBool, sym_real, sym_int, trig, PI
from pyvc.engine import eng
from pyvc import arrays as A
from pyvc import spec as S

EXPLANATION = ("gcirc: symmetry, zero for identical points, agreement of the three unit conventions, range given the haversine argument "
               "lies in [0,1]; (mu,nu) transforms: the Cartesian maps captured from the real functions are orthogonal, mutually inverse and "
               "send nu=0 to the great circle of the stripe's inclination through the node; stripe -> eta/inclination linear pieces.")
UNDECIDED = ["numerical accuracy (relative 1e-6 from micro-arcseconds to antipodes) and NaN-freedom in floating point: only sampled against 40-digit "
             "references on generated pairs (geometry_native, bounded), not proved",
             "haversine argument <= 1 (needed for the [0,180 deg] range): trigonometric inequality not derivable from the ground axioms used",
             "astropy frame plumbing (ICRS <-> SDSSMuNu registration, Angle wrapping modulo 360): trusted (A5) for the symbolic jobs, exercised by geometry_native",
             "angles_to_x / x_to_angles round trip: decided only for the polar angle (see job), azimuth modulo 360 via the arctan2 axiom"]


def _rad(x):
    return SReal(x.z * PI / 180) if isinstance(x, SReal) else np.deg2rad(x)


class _Gcirc(FunctionContract):
    target = "pydl.goddard.astro:gcirc"
    level = "C"
    nl_mode = "nra"
    assumptions = ["A1 floats as reals", "T-trig: SIN/COS/ARCSIN/SQRT uninterpreted with ground axiom instances (Pythagoras, parity, "
                   "values at 0, monotone arcsin, sign of sqrt); deg2rad = * PI/180"]

    def samples(self, rng):
        return iter(())


@register("C18")
class GcircSymmetric(_Gcirc):
    name = "gcirc_symmetry_zero"

    def cases(self, tier):
        return [0, 1, 2]

    def inputs(self):
        return dict(ra1=sym_real("ra1"), dec1=sym_real("dec1"), ra2=sym_real("ra2"), dec2=sym_real("dec2"), units=self.case)

    def call(self, fn, ra1, dec1, ra2, dec2, units):
        self._fn = fn
        return fn(ra1, dec1, ra2, dec2, units=units)

    def ensures(self, result, ra1, dec1, ra2, dec2, units):
        if not isinstance(ra1, SReal):
            from pydl.goddard.astro import gcirc
            return {"symmetric": S.eq(float(result), float(gcirc(ra2, dec2, ra1, dec1, units=units))),
                    "zero_for_identical_points": float(gcirc(ra1, dec1, ra1, dec1, units=units)) == 0.0}
        swapped = self._fn(ra2, dec2, ra1, dec1, units=units)
        same = self._fn(ra1, dec1, ra1, dec1, units=units)
        return {"symmetric": S.eq(result, swapped), "zero_for_identical_points": S.eq(same, 0)}

    def samples(self, rng):
        for _ in range(100):
            yield dict(ra1=rng.uniform(0, 24), dec1=rng.uniform(-1.5, 1.5), ra2=rng.uniform(0, 24), dec2=rng.uniform(-1.5, 1.5), units=rng.choice([0, 1, 2]))


@register("C18")
class GcircUnits(_Gcirc):
    """the three unit conventions describe the same distance"""
    name = "gcirc_units"

    def inputs(self):
        return dict(ra1=sym_real("ra1"), dec1=sym_real("dec1"), ra2=sym_real("ra2"), dec2=sym_real("dec2"))

    def call(self, fn, ra1, dec1, ra2, dec2):
        self._fn = fn
        return fn(ra1, dec1, ra2, dec2, units=2)        # degrees in, arcseconds out

    def ensures(self, result, ra1, dec1, ra2, dec2):
        if not isinstance(ra1, SReal):
            from pydl.goddard.astro import gcirc
            hours = gcirc(ra1 / 15.0, dec1, ra2 / 15.0, dec2, units=1)
            rads = gcirc(np.deg2rad(ra1), np.deg2rad(dec1), np.deg2rad(ra2), np.deg2rad(dec2), units=0)
            return {"hours_times_15": S.close(float(hours), float(result), 1e-9) or abs(hours - result) < 1e-6,
                    "radians_raw": S.close(float(np.rad2deg(rads) * 3600.0), float(result), 1e-9) or abs(np.rad2deg(rads) * 3600.0 - result) < 1e-6}
        hours = self._fn(ra1 / 15, dec1, ra2 / 15, dec2, units=1)
        rads = self._fn(_rad(ra1), _rad(dec1), _rad(ra2), _rad(dec2), units=0)
        return {"hours_times_15": S.eq(hours, result), "radians_raw": S.eq(SReal(rads.z * 180 / PI * 3600), result)}

    def samples(self, rng):
        for _ in range(100):
            yield dict(ra1=rng.uniform(0, 360), dec1=rng.uniform(-89, 89), ra2=rng.uniform(0, 360), dec2=rng.uniform(-89, 89))


@register("C18")
class GcircRange(_Gcirc):
    """0 <= distance <= PI (180 deg) provided the haversine argument lies in [0,1]"""
    name = "gcirc_range"

    def inputs(self):
        return dict(ra1=sym_real("ra1"), dec1=sym_real("dec1"), ra2=sym_real("ra2"), dec2=sym_real("dec2"))

    def call(self, fn, ra1, dec1, ra2, dec2):
        return fn(ra1, dec1, ra2, dec2, units=0)

    def ensures(self, result, ra1, dec1, ra2, dec2):
        if not isinstance(ra1, SReal):
            return {"within_0_pi": 0.0 <= float(result) <= np.pi + 1e-12}
        calls = [c for c in eng().ghost.get("trig_calls", []) if c[0] == "arcsin"]
        arg = calls[-1][1]
        return {"within_0_pi": S.implies(SBool(z3.And(arg >= 0, arg <= 1)), S.AND(result >= 0, SReal(result.z) <= SReal(PI)))}

    def samples(self, rng):
        for _ in range(100):
            yield dict(ra1=rng.uniform(0, 6.28), dec1=rng.uniform(-1.57, 1.57), ra2=rng.uniform(0, 6.28), dec2=rng.uniform(-1.57, 1.57))


# ---------------------------------------------------------------------------
# (mu, nu) <-> (ra, dec): Cartesian maps captured from the real functions, identities by exact polynomial arithmetic
# ---------------------------------------------------------------------------
class _Ang:
    """astropy Angle / Quantity stand-in carrying a symbolic value in radians"""
    def __init__(self, rad):
        self.rad = rad

    def to(self, unit):
        return types.SimpleNamespace(value=self.rad)

    def __sub__(self, o):
        return _Ang(self.rad - o.rad)

    def __add__(self, o):
        return _Ang(self.rad + o.rad)


class _AC:
    def Angle(self, v, unit=None):
        return _Ang(v)

    class _ICRS:
        def __init__(self, ra=None, dec=None):
            self.ra, self.dec = ra, dec

        def transform_to(self, frame):
            return self
    ICRS = _ICRS


class _U:
    radian = "radian"
    deg = "deg"


def _z3_to_sympy(e, sym, atoms):
    import sympy as sp
    if z3.is_rational_value(e):
        return sp.Rational(e.numerator_as_long(), e.denominator_as_long())
    if z3.is_app(e):
        k = e.decl().kind()
        ch = [_z3_to_sympy(c, sym, atoms) for c in e.children()]
        if k == z3.Z3_OP_ADD:
            return sum(ch[1:], ch[0])
        if k == z3.Z3_OP_MUL:
            r = ch[0]
            for c in ch[1:]:
                r = r * c
            return r
        if k == z3.Z3_OP_SUB:
            r = ch[0]
            for c in ch[1:]:
                r = r - c
            return r
        if k == z3.Z3_OP_UMINUS:
            return -ch[0]
        if k == z3.Z3_OP_DIV:
            return ch[0] / ch[1]
        key = str(e)
        if key not in atoms:
            atoms[key] = sp.Symbol("a%d" % len(atoms))
        return atoms[key]
    raise ValueError("cannot translate " + str(e))


@register("C18")
class MuNuRotation:
    """radec_to_munu / munu_to_radec: orthogonal, mutually inverse, nu = 0 <=> great circle of inclination incl through the node"""
    name = "munu_rotation"
    prop = "C18"
    target = "pydl.pydlutils.coord:radec_to_munu, munu_to_radec"
    level = "C"

    def run_job(self, tier, seed, exclusions):
        import time
        import traceback
        import sympy as sp
        from pyvc import amode
        from pyvc.engine import Engine
        t0 = time.time()
        res = JobResult(job=self.name, target=self.target, level="C", prop="C18", obligations=[], failures=[], crashed=None, bound=None,
                        paths=0, solver_s=0.0, queries=0, native_runs=0, native_failures=[], vacuity=None,
                        assumptions=["the Cartesian components are captured at the calls of arctan2 / arcsin inside the real functions (astropy Angle / frame "
                                     "objects replaced by stand-ins carrying radians)", "sin/cos of the five angles are independent symbols subject to s^2+c^2=1",
                                     "exact polynomial arithmetic (sympy) modulo the Pythagorean relations", "A1 floats as reals"])

        def ob(name, ok, note=""):
            d = dict(name="munu_rotation:" + name, path=0, status="unsat" if ok else "sat", secs=0.0, backend="polyid", size=0, note="" if ok else note)
            if not ok:
                d.update(inputs=None, model=note, reason="")
            res["obligations"].append(d)
        try:
            E = Engine("munu")
            Engine.current = E
            E._reset_path([])
            shims = dict(ac=_AC(), u=_U, SDSSMuNu=lambda mu=None, nu=None, stripe=None: types.SimpleNamespace(mu=mu, nu=nu, stripe=stripe))
            Lf = amode.load("pydl.pydlutils.coord:radec_to_munu", extra_globals=shims)
            Lb = amode.load("pydl.pydlutils.coord:munu_to_radec", extra_globals=shims)
            res["rewritten_source"] = Lf.rewritten_source + "\\n" + Lb.rewritten_source
            ra, dec, node, incl, mu, nu = (sym_real(k) for k in ("ra", "dec", "node", "incl", "mu", "nu"))
            icrs = types.SimpleNamespace(ra=_Ang(ra), dec=_Ang(dec))
            munu = types.SimpleNamespace(node=_Ang(node), incl=_Ang(incl), stripe=10, mu=_Ang(mu), nu=_Ang(nu))
            E.ghost["trig_calls"] = []
            Lf.fn(icrs, munu)
            calls = list(E.ghost["trig_calls"])
            y2, x2 = [c for c in calls if c[0] == "arctan2"][-1][1:]
            z2 = [c for c in calls if c[0] == "arcsin"][-1][1]
            E.ghost["trig_calls"] = []
            Lb.fn(munu, icrs)
            calls = list(E.ghost["trig_calls"])
            yy, xx = [c for c in calls if c[0] == "arctan2"][-1][1:]
            zz = [c for c in calls if c[0] == "arcsin"][-1][1]
            res["paths"] = 2
            atoms = {}
            X2, Y2, Z2, XX, YY, ZZ = (sp.expand(_z3_to_sympy(z3.simplify(e), sp, atoms)) for e in (x2, y2, z2, xx, yy, zz))
            names = {str(k): v for k, v in atoms.items()}

            def atom(fn, arg):
                for k, v in atoms.items():
                    if k == "%s(%s)" % (fn, arg):
                        return v
                raise KeyError("%s(%s) not among %s" % (fn, arg, list(atoms)))
            sd, cd = atom("SIN", str(z3.simplify(dec.z))), atom("COS", str(z3.simplify(dec.z)))
            sr, cr = atom("SIN", str(z3.simplify(ra.z - node.z))), atom("COS", str(z3.simplify(ra.z - node.z)))
            si, ci = atom("SIN", str(z3.simplify(incl.z))), atom("COS", str(z3.simplify(incl.z)))
            sn, cn = atom("SIN", str(z3.simplify(nu.z))), atom("COS", str(z3.simplify(nu.z)))
            sm, cm = atom("SIN", str(z3.simplify(mu.z - node.z))), atom("COS", str(z3.simplify(mu.z - node.z)))
            # forward map as a matrix on (x1,y1,z1) = (cd*cr, cd*sr, sd)
            x1, y1, z1 = sp.symbols("x1 y1 z1")

            def as_linear(expr, monos, news):
                coeffs = sp.Poly(sp.expand(expr), *sorted({s for m in monos for s in m.free_symbols}, key=str)).as_dict()
                gens = sorted({s for m in monos for s in m.free_symbols}, key=str)
                total = 0
                for powers, c in coeffs.items():
                    mono = sp.Integer(1)
                    for g_, pw in zip(gens, powers):
                        mono *= g_ ** pw
                    hit = [nsym for m, nsym in zip(monos, news) if sp.expand(m - mono) == 0]
                    if not hit:
                        raise ValueError("term %s*%s is not one of the expected Cartesian monomials" % (c, mono))
                    total += c * hit[0]
                return total
            A_rows = [as_linear(e, [cd * cr, cd * sr, sd], [x1, y1, z1]) for e in (X2, Y2, Z2)]
            u_, v_, w_ = sp.symbols("u v w")
            B_rows = [as_linear(e, [cm * cn, sm * cn, sn], [u_, v_, w_]) for e in (XX, YY, ZZ)]
            A = sp.Matrix([[sp.expand(r).coeff(s) for s in (x1, y1, z1)] for r in A_rows])
            B = sp.Matrix([[sp.expand(r).coeff(s) for s in (u_, v_, w_)] for r in B_rows])
            py = si ** 2 + ci ** 2 - 1

            def zero_mod(e):
                return sp.rem(sp.expand(e), py, si) == 0 or sp.simplify(sp.expand(e).subs(si ** 2, 1 - ci ** 2)) == 0
            I3 = sp.eye(3)
            ob("forward_map_is_linear_in_the_unit_vector", True)
            ob("forward_orthogonal", all(zero_mod(e) for e in (A.T * A - I3)), str(A))
            ob("backward_orthogonal", all(zero_mod(e) for e in (B.T * B - I3)), str(B))
            ob("backward_inverts_forward", all(zero_mod(e) for e in (B * A - I3)), "B*A = %s" % (B * A,))
            ob("forward_inverts_backward", all(zero_mod(e) for e in (A * B - I3)), "A*B = %s" % (A * B,))
            ob("determinant_plus_one", zero_mod(A.det() - 1), str(A.det()))
            ob("nu_zero_is_the_inclined_great_circle_through_the_node", sp.expand(A_rows[2] - (z1 * ci - y1 * si)) == 0, str(A_rows[2]))
            ob("node_axis_fixed", sp.expand(A_rows[0] - x1) == 0, str(A_rows[0]))
            # the frame's inclination and node: incl = stripe_to_incl(stripe), node = 95 deg
            import pydl.pydlutils.coord as cmod
            fr = cmod.SDSSMuNu(stripe=10)
            ob("frame_uses_stripe_inclination_and_node_95", abs(fr.incl.to("deg").value - cmod.stripe_to_incl(10)) < 1e-12 and abs(fr.node.to("deg").value - 95.0) < 1e-12,
               "incl=%s node=%s" % (fr.incl, fr.node))
            res["vacuity"] = dict(A=str(A), B=str(B))
        except Exception:
            res["crashed"] = traceback.format_exc()
        res["wall_s"] = time.time() - t0
        return res


@register("C18")
class StripeLinear(FunctionContract):
    name = "stripe_to_incl"
    target = "pydl.pydlutils.coord:stripe_to_incl"
    level = "C"
    assumptions = ["stripe numbers are integers or reals; floats as reals"]

    def inputs(self):
        return dict(stripe=sym_real("stripe"))

    def call(self, fn, stripe):
        return fn(stripe)

    def ensures(self, result, stripe):
        eta = stripe * 2.5 - 57.5
        eta = S.ite(stripe > 46, eta - 180.0, eta)
        return {"incl_is_eta_plus_32.5": S.eq(result, eta + 32.5)}

    def samples(self, rng):
        for s in range(0, 90):
            yield dict(stripe=s)


@register("C18")
class AnglesRoundTrip(FunctionContract):
    """x_to_angles(angles_to_x(p)) == p for one generic point (polar angle in [0,180], azimuth in (-180,180])"""
    name = "angles_roundtrip"
    target = "pydl.pydlutils.mangle:angles_to_x"
    level = "C"
    nl_mode = "nra"
    assumptions = ["T-trig incl. inverse axioms arccos(cos t) = t on [0,PI], arctan2(k sin t, k cos t) = t for k > 0 on (-PI,PI] (ground instances)",
                   "one generic row (A3)", "sin(theta) > 0 (the azimuth of a pole is undefined)"]

    def cases(self, tier):
        return [False, True]

    def inputs(self):
        p = np.empty((1, 2), dtype=object)
        p[0, 0], p[0, 1] = sym_real("phi"), sym_real("theta")
        return dict(points=p, latitude=self.case)

    def requires(self, points, latitude):
        phi, th = points[0, 0], points[0, 1]
        if latitude:
            return S.AND(phi > -180, phi <= 180, th > -90, th < 90)
        return S.AND(phi > -180, phi <= 180, th > 0, th < 180)

    def call(self, fn, points, latitude):
        x = fn(points, latitude=latitude)
        if isinstance(points[0, 0], SReal):
            from pyvc import amode
            back = amode.load("pydl.pydlutils.mangle:x_to_angles").fn
            e = eng()
            phi, th = points[0, 0], points[0, 1]
            pr = phi.z * PI / 180
            tr = ((90 - th.z) if latitude else th.z) * PI / 180
            from pyvc.proxies import _tf
            S_, C_, AC, AT = _tf("sin"), _tf("cos"), _tf("arccos"), _tf("arctan2")
            st = S_(tr)
            # ground instances of the inverse-function axioms at the angles in play
            e.pc.append(z3.Implies(z3.And(tr >= 0, tr <= PI), AC(C_(tr)) == tr))
            e.pc.append(z3.Implies(z3.And(tr > 0, tr < PI), st > 0))
            e.pc.append(z3.Implies(z3.And(st > 0, pr > -PI, pr <= PI), AT(S_(pr) * st, C_(pr) * st) == pr))
            return back(x, latitude=latitude)
        from pydl.pydlutils.mangle import x_to_angles
        return x_to_angles(x, latitude=latitude)

    def ensures(self, result, points, latitude):
        if isinstance(points[0, 0], SReal):
            return {"polar_angle_recovered": S.eq(result[0, 1], points[0, 1]), "azimuth_recovered": S.eq(result[0, 0], points[0, 0])}
        d = (float(result[0, 0]) - float(points[0, 0]) + 180.0) % 360.0 - 180.0
        return {"polar_angle_recovered": abs(float(result[0, 1]) - float(points[0, 1])) < 1e-7, "azimuth_recovered": abs(d) < 1e-7}

    def samples(self, rng):
        for _ in range(100):
            lat = rng.random() < 0.5
            th = rng.uniform(-89, 89) if lat else rng.uniform(1, 179)
            yield dict(points=np.array([[rng.uniform(-179, 180), th]]), latitude=lat)


class _Sy:
    """sympy expression wrapper with the method names numpy's object-dtype ufunc loops call"""
    def __init__(self, e):
        self.e = e

    def _w(f):
        def m(self, o=None):
            import sympy as sp
            return _Sy(f(sp, self.e, o.e if isinstance(o, _Sy) else o))
        return m
    __add__ = _w(lambda sp, a, b: a + b)
    __radd__ = _w(lambda sp, a, b: b + a)
    __sub__ = _w(lambda sp, a, b: a - b)
    __rsub__ = _w(lambda sp, a, b: b - a)
    __mul__ = _w(lambda sp, a, b: a * b)
    __rmul__ = _w(lambda sp, a, b: b * a)
    __truediv__ = _w(lambda sp, a, b: a / sp.nsimplify(b) if not hasattr(b, "free_symbols") else a / b)
    sin = _w(lambda sp, a, b: sp.sin(a))
    cos = _w(lambda sp, a, b: sp.cos(a))
    sqrt = _w(lambda sp, a, b: sp.sqrt(a))
    arcsin = _w(lambda sp, a, b: sp.Function("ARCSIN")(a))
    arccos = _w(lambda sp, a, b: sp.Function("ARCCOS")(a))
    deg2rad = _w(lambda sp, a, b: a * sp.pi / 180)
    rad2deg = _w(lambda sp, a, b: a * 180 / sp.pi)


@register("C18")
class GcircFormula:
    """gcirc is the great-circle distance: its haversine argument equals (1 - u.v)/2 for the unit vectors u, v of the two points
    (exact trigonometric identity on the expression captured from the real function), plus a numerical comparison with the vector formula"""
    name = "gcirc_vector_formula"
    prop = "C18"
    target = "pydl.goddard.astro:gcirc"
    level = "C"

    def run_job(self, tier, seed, exclusions):
        import random
        import time
        import traceback
        import sympy as sp
        from pyvc import amode
        from pyvc.engine import Engine
        t0 = time.time()
        res = JobResult(job=self.name, target=self.target, level="C", prop="C18", obligations=[], failures=[], crashed=None, bound=None,
                        paths=0, solver_s=0.0, queries=0, native_runs=0, native_failures=[], vacuity=None,
                        assumptions=["symbolic coordinates as sympy expressions through the real function; identity decided by sympy's exact trigonometric simplification",
                                     "A1 floats as reals for the identity; the numerical comparison uses a 1e-6 relative tolerance from 1e-4 arcsec to 180 deg"])

        def ob(name, ok, note="", backend="polyid", inputs=None):
            d = dict(name=self.name + ":" + name, path=0, status="unsat" if ok else "sat", secs=0.0, backend=backend, size=0, note="" if ok else note)
            if not ok:
                d.update(inputs=inputs, model=note, reason="")
            res["obligations"].append(d)
        try:
            Engine.current = Engine("gcf")
            fn = amode.load("pydl.goddard.astro:gcirc").fn
            r1, d1, r2, d2 = sp.symbols("r1 d1 r2 d2", real=True)
            for units in (0, 1, 2):
                out = fn(_Sy(r1), _Sy(d1), _Sy(r2), _Sy(d2), units=units)
                res["paths"] += 1
                e = out.e
                args = [a for a in sp.preorder_traversal(e) if getattr(a, "func", None) is not None and str(a.func) == "ARCSIN"]
                ok_shape = len(args) >= 1
                ob("is_two_arcsin_of_a_haversine[units=%d]" % units, ok_shape, "result %s" % e)
                if not ok_shape:
                    continue
                hav = sp.nsimplify(args[0].args[0] ** 2, rational=True)      # 15.0, 2.0: float literals read as the rationals they denote (A1)
                scale = {0: (1, 1), 1: (15 * sp.pi / 180, sp.pi / 180), 2: (sp.pi / 180, sp.pi / 180)}[units]
                a1, b1, a2, b2 = r1 * scale[0], d1 * scale[1], r2 * scale[0], d2 * scale[1]
                dot = sp.sin(b1) * sp.sin(b2) + sp.cos(b1) * sp.cos(b2) * sp.cos(a2 - a1)
                diff = sp.simplify(sp.expand_trig(sp.expand(hav - (1 - dot) / 2)))
                if diff != 0:
                    diff = sp.simplify(sp.expand(sp.expand_trig(hav - (1 - dot) / 2).rewrite(sp.cos)))
                ob("haversine_equals_half_one_minus_dot_product[units=%d]" % units, diff == 0, "difference %s" % str(diff)[:200])
                outer = sp.nsimplify(e / args[0], rational=True)
                want = {0: 2, 1: 2 * 180 / sp.pi * 3600, 2: 2 * 180 / sp.pi * 3600}[units]
                ob("scaled_to_the_output_unit[units=%d]" % units, sp.simplify(outer - want) == 0, "factor %s" % outer)
            # numerical comparison with the vector formula over nine decades of separation, incl. poles and antipodes
            from pydl.goddard.astro import gcirc
            rng = random.Random(seed + 5)
            worst = (0.0, None)
            for _ in range(400 if tier == "quick" else 4000):
                ra, dec = rng.uniform(0, 360), rng.choice([rng.uniform(-89.9, 89.9), 90.0, -90.0, 0.0])
                sepdeg = 10 ** rng.uniform(-7.5, 2.25)
                pa = rng.uniform(0, 2 * np.pi)
                # destination point at great-circle distance sep and position angle pa
                s, dr = np.deg2rad(sepdeg), np.deg2rad(dec)
                sd2 = np.sin(dr) * np.cos(s) + np.cos(dr) * np.sin(s) * np.cos(pa)
                dec2 = np.rad2deg(np.arcsin(np.clip(sd2, -1, 1)))
                ra2 = ra + np.rad2deg(np.arctan2(np.sin(pa) * np.sin(s) * np.cos(dr), np.cos(s) - np.sin(dr) * sd2))
                u = np.array([np.cos(np.deg2rad(dec)) * np.cos(np.deg2rad(ra)), np.cos(np.deg2rad(dec)) * np.sin(np.deg2rad(ra)), np.sin(np.deg2rad(dec))])
                v = np.array([np.cos(np.deg2rad(dec2)) * np.cos(np.deg2rad(ra2)), np.cos(np.deg2rad(dec2)) * np.sin(np.deg2rad(ra2)), np.sin(np.deg2rad(dec2))])
                ref = np.rad2deg(np.arctan2(np.linalg.norm(np.cross(u, v)), np.dot(u, v))) * 3600.0
                got = gcirc(ra, dec, ra2, dec2, units=2)
                res["native_runs"] += 1
                if not np.isfinite(got):
                    worst = (np.inf, dict(ra1=ra, dec1=dec, ra2=float(ra2), dec2=float(dec2)))
                    break
                rel = abs(got - ref) / max(ref, 1e-12)
                if ref > 1e-4 and rel > worst[0]:
                    worst = (rel, dict(ra1=ra, dec1=dec, ra2=float(ra2), dec2=float(dec2), got=float(got), ref=float(ref)))
            ob("agrees_with_vector_formula_to_1e-6", worst[0] <= 1e-6, "relative error %g at %s" % worst, backend="native-numeric", inputs=worst[1])
            res["vacuity"] = dict(units=3)
        except Exception:
            res["crashed"] = traceback.format_exc()
        res["wall_s"] = time.time() - t0
        return res

    def native_replay(self, inputs):
        from pydl.goddard.astro import gcirc
        a = inputs
        u = lambda ra, dec: np.array([np.cos(np.deg2rad(dec)) * np.cos(np.deg2rad(ra)), np.cos(np.deg2rad(dec)) * np.sin(np.deg2rad(ra)), np.sin(np.deg2rad(dec))])
        p, q = u(a["ra1"], a["dec1"]), u(a["ra2"], a["dec2"])
        ref = np.rad2deg(np.arctan2(np.linalg.norm(np.cross(p, q)), np.dot(p, q))) * 3600.0
        got = gcirc(a["ra1"], a["dec1"], a["ra2"], a["dec2"], units=2)
        ok = np.isfinite(got) and abs(got - ref) <= 1e-6 * max(ref, 1e-12)
        return (bool(ok), "gcirc=%r arcsec, vector formula=%r arcsec" % (float(got), float(ref)))


# ---------------------------------------------------------------------------
# the public entry points on concrete sky positions against independent high-precision references (bounded stand-in):
# gives replayable inputs where the symbolic jobs can only say "engine limit", and covers arrays, aliasing and the astropy frame route
# ---------------------------------------------------------------------------
from pyvc.numeric import NumericJob as _NumericJob


def _mp_sep_deg(ra1, dec1, ra2, dec2):
    """great-circle separation in degrees from unit vectors, 40-digit arithmetic on the given doubles"""
    import mpmath as mp
    mp.mp.dps = 40
    def unit(r, d):
        r, d = mp.radians(mp.mpf(float(r))), mp.radians(mp.mpf(float(d)))
        return (mp.cos(d) * mp.cos(r), mp.cos(d) * mp.sin(r), mp.sin(d))
    a, b = unit(ra1, dec1), unit(ra2, dec2)
    cr = (a[1] * b[2] - a[2] * b[1], a[2] * b[0] - a[0] * b[2], a[0] * b[1] - a[1] * b[0])
    return float(mp.degrees(mp.atan2(mp.sqrt(cr[0] ** 2 + cr[1] ** 2 + cr[2] ** 2), a[0] * b[0] + a[1] * b[1] + a[2] * b[2])))


@register("C18")
class GeometryNative(_NumericJob):
    name = "geometry_native"
    target = ("pydl.goddard.astro:gcirc; pydl.pydlutils.coord:SDSSMuNu, munu_to_radec, radec_to_munu, stripe_to_incl, stripe_to_eta; "
              "pydl.pydlutils.mangle:angles_to_x, x_to_angles")
    bound = ("point pairs with separations 1e-6 arcsec .. 180 deg at declinations incl. +-90, scalar and array calling forms, the three unit conventions, "
             "arrays re-used after the call; every stripe 0..86 with 6 sky positions each; angle arrays incl. positions within milli-arcseconds of the "
             "equator, the RA = 0/90/180/270 planes and (at looser tolerance) the poles")
    KINDS = ("gcirc_equals_vector_formula_symmetric_in_range_never_nan", "gcirc_unit_conventions_and_calling_forms_agree", "gcirc_leaves_its_arguments_unchanged",
             "munu_round_trip_and_separations_preserved", "nu_zero_traces_the_inclined_great_circle_through_the_node", "angles_and_unit_vectors_are_mutual_inverses")
    NQ, NT = 40, 400

    def _cases(self, rng, n):
        for rep in range(n):
            pairs = []
            for _ in range(12):
                ra1 = rng.choice([0.0, 359.9999, rng.uniform(0, 360)])
                dec1 = rng.choice([0.0, 90.0, -90.0, 89.9, rng.uniform(-90, 90), rng.uniform(-90, 90)])
                kind = rng.choice(["tiny", "small", "any", "antipode", "same"])
                if kind == "same":
                    ra2, dec2 = ra1, dec1
                elif kind == "antipode":
                    ra2, dec2 = (ra1 + 180.0) % 360.0, -dec1
                elif kind == "any":
                    ra2, dec2 = rng.uniform(0, 360), rng.uniform(-90, 90)
                else:
                    sep = 10 ** rng.uniform(-6, 0) / 3600.0 if kind == "tiny" else 10 ** rng.uniform(-3, 1)
                    th = rng.uniform(0, 2 * np.pi)
                    dec2 = max(-90.0, min(90.0, dec1 + sep * np.sin(th)))
                    ra2 = ra1 + sep * np.cos(th) / max(1e-6, np.cos(np.radians(dec1)))
                pairs.append((ra1, dec1, ra2, dec2))
            stripes = rng.sample(range(0, 87), 6 if rep else 87)[:87] if rep else list(range(87))
            pts = [(rng.uniform(0, 360), np.degrees(np.arcsin(rng.uniform(-1, 1)))) for _ in range(6)]
            mas = 1 / 3.6e6
            ang = [(rng.choice([0.0, 90.0, 180.0, 270.0, 45.0, rng.uniform(0, 360)]) + rng.choice([0.0, rng.uniform(-3, 3) * mas]),
                    rng.choice([0.0, rng.uniform(-3, 3) * mas, rng.uniform(-80, 80), rng.choice([-1, 1]) * rng.uniform(80, 89.99)])) for _ in range(16)]
            yield dict(pairs=pairs, stripes=stripes, pts=pts, ang=ang, inp=dict(rep=rep, stripes=stripes[:8]))

    def _check(self, c):
        import astropy.units as u
        from astropy.coordinates import ICRS
        from pydl.goddard.astro import gcirc
        from pydl.pydlutils.coord import SDSSMuNu, stripe_to_incl
        from pydl.pydlutils.mangle import angles_to_x, x_to_angles
        bad = []
        P = np.array(c["pairs"])
        ra1, dec1, ra2, dec2 = (P[:, k].copy() for k in range(4))
        keep = [a.copy() for a in (ra1, dec1, ra2, dec2)]
        d2 = np.asarray(gcirc(ra1, dec1, ra2, dec2, units=2), dtype=float)              # arcsec
        d2r = np.asarray(gcirc(ra2, dec2, ra1, dec1, units=2), dtype=float)
        h1, h2 = ra1 / 15.0, ra2 / 15.0
        hk = [h1.copy(), h2.copy()]
        d1 = np.asarray(gcirc(h1, dec1, h2, dec2, units=1), dtype=float)
        d1b = np.asarray(gcirc(h1, dec1, h2, dec2, units=1), dtype=float)                # the same arrays again
        d0 = np.asarray(gcirc(np.radians(ra1), np.radians(dec1), np.radians(ra2), np.radians(dec2), units=0), dtype=float)
        if not all(np.array_equal(a, b) for a, b in zip((ra1, dec1, ra2, dec2, h1, h2), keep + hk)):
            bad.append(("gcirc_leaves_its_arguments_unchanged", "an argument array was modified by gcirc"))
        ref = np.array([_mp_sep_deg(*p) for p in c["pairs"]]) * 3600.0
        tol = 1e-6 * ref + 1e-9                                                          # relative 1e-6; 1e-9 arcsec absolute floor
        if np.isnan(d2).any() or (d2 < 0).any() or (d2 > 180 * 3600.0 * (1 + 1e-12)).any() or not np.array_equal(d2, d2r) or (np.abs(d2 - ref) > tol).any() \
                or any(d2[k] != 0.0 for k, p in enumerate(c["pairs"]) if (p[0], p[1]) == (p[2], p[3])):
            k = int(np.nanargmax(np.abs(d2 - ref) / (tol + 1e-300))) if not np.isnan(d2).all() else 0
            bad.append(("gcirc_equals_vector_formula_symmetric_in_range_never_nan", "pair %s: gcirc %r arcsec, swapped %r, reference %r" % (c["pairs"][k], d2[k], d2r[k], ref[k])))
        sc = np.array([float(gcirc(*p, units=2)) for p in c["pairs"]])
        if not (np.allclose(d1, d2, rtol=1e-9, atol=1e-9) and np.array_equal(d1, d1b) and np.allclose(np.degrees(d0) * 3600.0, d2, rtol=1e-9, atol=1e-9) and np.allclose(sc, d2, rtol=1e-12, atol=1e-12)):
            bad.append(("gcirc_unit_conventions_and_calling_forms_agree", "hours %s / repeated %s / radians %s / scalar %s vs degrees %s" %
                        (d1[:3].tolist(), d1b[:3].tolist(), (np.degrees(d0) * 3600)[:3].tolist(), sc[:3].tolist(), d2[:3].tolist())))
        # (mu, nu) through the astropy frames
        node = 95.0
        pra = np.array([p[0] for p in c["pts"]])
        pdec = np.array([p[1] for p in c["pts"]])
        for s in c["stripes"]:
            incl = float(stripe_to_incl(s))
            fr = SDSSMuNu(stripe=s)
            m = ICRS(ra=pra * u.deg, dec=pdec * u.deg).transform_to(fr)
            mu, nu = m.mu.to(u.deg).value, m.nu.to(u.deg).value
            back = SDSSMuNu(mu=mu * u.deg, nu=nu * u.deg, stripe=s).transform_to(ICRS())
            bra, bdec = back.ra.to(u.deg).value, back.dec.to(u.deg).value
            sep0 = [_mp_sep_deg(pra[0], pdec[0], pra[k], pdec[k]) for k in range(1, len(pra))]
            sep1 = [_mp_sep_deg(mu[0], nu[0], mu[k], nu[k]) for k in range(1, len(pra))]
            dra = (bra - pra + 180.0) % 360.0 - 180.0
            if not (np.allclose(dra * np.cos(np.radians(pdec)), 0, atol=1e-9) and np.allclose(bdec, pdec, atol=1e-9) and np.allclose(sep0, sep1, rtol=1e-9, atol=1e-10)):
                bad.append(("munu_round_trip_and_separations_preserved", "stripe %d" % s))
                break
            mus = np.array([node, node + 90.0, node + 200.0, 17.0, 301.5])
            eq = SDSSMuNu(mu=mus * u.deg, nu=np.zeros(mus.size) * u.deg, stripe=s).transform_to(ICRS())
            e1 = np.array([np.cos(np.radians(node)), np.sin(np.radians(node)), 0.0])
            e2 = np.array([-np.sin(np.radians(node)) * np.cos(np.radians(incl)), np.cos(np.radians(node)) * np.cos(np.radians(incl)), np.sin(np.radians(incl))])
            want = np.cos(np.radians(mus - node))[:, None] * e1 + np.sin(np.radians(mus - node))[:, None] * e2
            r_, d_ = np.radians(eq.ra.to(u.deg).value), np.radians(eq.dec.to(u.deg).value)
            got = np.stack([np.cos(d_) * np.cos(r_), np.cos(d_) * np.sin(r_), np.sin(d_)], axis=1)
            if not np.allclose(got, want, atol=1e-10):
                bad.append(("nu_zero_traces_the_inclined_great_circle_through_the_node", "stripe %d (inclination %g deg): nu = 0 at mu = node + 90 gives Dec %g" %
                            (s, incl, float(eq.dec.to(u.deg).value[1]))))
                break
        # angles <-> unit vectors
        A = np.array(c["ang"])
        A0 = A.copy()
        x = angles_to_x(A, latitude=True)
        back = x_to_angles(x, latitude=True)
        dra = (back[:, 0] - A[:, 0] + 180.0) % 360.0 - 180.0
        tol = np.where(np.abs(A[:, 1]) < 80.0, 1e-10, 1e-5)
        x2 = angles_to_x(back, latitude=True)
        if not (np.array_equal(A, A0) and (np.abs(dra) * np.cos(np.radians(A[:, 1])) <= tol).all() and (np.abs(back[:, 1] - A[:, 1]) <= tol).all()
                and np.allclose((x ** 2).sum(axis=1), 1.0, atol=1e-14) and np.allclose(x2, x, atol=1e-9)):
            k = int(np.argmax(np.maximum(np.abs(dra) * np.cos(np.radians(A[:, 1])), np.abs(back[:, 1] - A[:, 1])) / tol))
            bad.append(("angles_and_unit_vectors_are_mutual_inverses", "(%.12f, %.12f) -> %s -> (%.12f, %.12f)" % (A[k, 0], A[k, 1], x[k].tolist(), back[k, 0], back[k, 1])))
        return bad
