"""C02 -- yanny: the meaning of a file does not depend on its surface syntax."""
import io
import itertools
import os
import tempfile
import warnings
import numpy as np
from pyvc.harness import register, JobResult

EVIDENCE_LEVEL = "other"
EXPLANATION = ("Bounded stand-in: a logical document (pairs, an enum, two structures with scalar, array, char[] and enum columns, rows of two "
               "tables) is rendered in every combination of the layout choices the specification permits; every rendering must parse to the "
               "same tables, column types, row order, cell values and pairs, in normal and raw mode, from a file name, a text and a binary file object.")
UNDECIDED = ["documents and renderings beyond the enumerated product (one logical document family x 2^11 layout combinations, structure-name variants)",
             "typedef blocks written on a single line (not among the listed renderings; the column-type regex is greedy across columns there)",
             "unbounded strings / whole-file regular expressions for arbitrary inputs: not decided by proof"]

LAYOUT = ["comment_lines", "trailing_comments", "blank_lines", "tabs", "crlf", "continuation", "quoting", "angle_brackets", "row_case", "interleave", "indent"]


def logical_document(names=("OBJ", "EXP")):
    a, b = names
    return dict(
        pairs=[("survey", "sdss"), ("version", "v1 2 3"), ("count", "17")],
        enum=("COLOR", ["RED", "GREEN", "BLUE"]),
        structs=[(a, [("id", "int", None), ("mag", "float", 2), ("name", "char", "var"), ("flag", "COLOR", None), ("tags", "char", (2, 5)), ("kinds", "char", (3, "var"))]),
                 (b, [("n", "long", None), ("ratio", "double", None), ("label", "char", 8)])],
        rows=[(a, [1, [1.5, -2.25], "alpha", "RED", ["x", "yy"], ["sdss", "apogee-south-spare", "z 1"]]),
              (b, [2 ** 62 + 1, 0.125, "first"]),
              (a, [2, [0.0, 3.0], "be ta", "BLUE", ["", "q#r"], ["b", "aaaa-long-long-long-long", "c"]]),
              (a, [3, [7.0, 8.0], "g", "GREEN", ["a b", "z"], ["m", "", "zz"]]),
              (b, [-(2 ** 53) - 1, -4.5, "se cond"])])


def other_document():
    """same structure, column and enum names as logical_document(), other definitions"""
    dB = dict(logical_document(("OBJ", "EXP")))
    dB["enum"] = ("COLOR", ["ULTRAVIOLET", "RED"])
    a_, b_ = "OBJ", "EXP"
    dB["structs"] = [(a_, [("id", "long", None), ("mag", "float", None), ("name", "char", 4), ("flag", "COLOR", None), ("tags", "char", 6), ("kinds", "char", (2, 9))]),
                     (b_, [("n", "int", 2), ("ratio", "float", None), ("label", "char", "var")])]
    dB["rows"] = [(a_, [2 ** 40, 2.5, "ab", "ULTRAVIOLET", "single", ["u v", "wxyz"]]), (b_, [[1, 2], 0.5, "a longer label"]), (a_, [5, -1.0, "", "RED", "t", ["", "k"]])]
    return dB


def render(doc, opts, rng_bits=0):
    o = {k: bool(opts[i]) for i, k in enumerate(LAYOUT)}
    o["typedef_oneline"] = False      # typedefs on a single line are not among the renderings the property lists (and are not parsed correctly)
    sep = "\t  " if o["tabs"] else " "
    lines = ["#%yanny"]
    if o["comment_lines"]:
        lines.append("# a comment line")
    for pi, (k, v) in enumerate(doc["pairs"]):
        # trailing comments on pair lines: after blanks, or after a tab ("arbitrary blanks and tabs")
        tc = ["  # about " + k, "\t# who was there", ""][pi % 3] if o["trailing_comments"] else ""
        lines.append(("   " if (o["indent"] and pi % 2) else "") + k + sep + v + tc)
        if o["blank_lines"]:
            lines.append("")
        if o["comment_lines"]:
            lines.append("   # indented comment")
    en, labels = doc["enum"]
    if o["typedef_oneline"]:
        lines.append("typedef enum { " + ", ".join(labels) + " } " + en + ";")
    else:
        lines.append("typedef enum {")
        for i, l in enumerate(labels):
            lines.append("    " + l + ("," if i < len(labels) - 1 else ""))
        lines.append("} " + en + ";")
    lb, rb = ("<", ">") if o["angle_brackets"] else ("[", "]")
    for name, cols in doc["structs"]:
        body = []
        for cn, ct, dim in cols:
            d = ct + " " + cn
            if dim == "var":
                d += lb + rb
            elif isinstance(dim, tuple):
                d += lb + str(dim[0]) + rb + lb + ("" if dim[1] == "var" else str(dim[1])) + rb
            elif dim is not None:
                d += lb + str(dim) + rb
            body.append(d + ";")
        if o["typedef_oneline"]:
            lines.append("typedef struct { " + " ".join(body) + " } " + name + ";")
        else:
            lines.append("typedef struct {")
            lines += ["    " + x for x in body]
            lines.append("} " + name + ";")
        if o["blank_lines"]:
            lines.append("")
    rows = list(doc["rows"])
    if not o["interleave"]:
        order = [n for n, _ in doc["structs"]]
        rows = sorted(rows, key=lambda r: order.index(r[0]))       # stable: keeps the order within each table

    def cell(v, j, in_array=False):
        s = str(v)
        need = (s == "" or " " in s or "\t" in s or "#" in s)
        if need:
            return '"' + s + '"'
        if o["quoting"] and isinstance(v, str):
            # strings bare, double-quoted or brace-wrapped (braces only for scalar cells: inside an array they delimit the array)
            return (['"' + s + '"', s] if in_array else ['"' + s + '"', "{" + s + "}", s])[j % (2 if in_array else 3)]
        return s
    for ri, (tname, vals) in enumerate(rows):
        nm = tname
        if o["row_case"]:
            nm = [tname.lower(), tname.capitalize(), tname][ri % 3]
        toks = [nm]
        for j, v in enumerate(vals):
            if isinstance(v, list):
                toks.append("{" + sep.join(cell(x, j + k, True) if not isinstance(x, float) else repr(x) for k, x in enumerate(v)) + "}")
            elif isinstance(v, float):
                toks.append(repr(v))
            else:
                toks.append(cell(v, j))
        if o["continuation"] and len(toks) > 3:
            line = sep.join(toks[:2]) + " \\\n   " + sep.join(toks[2:])
        else:
            line = sep.join(toks)
        if o["trailing_comments"]:
            line += ["   # plain", "  # trailing \"quoted\" comment", "\t# after a tab"][ri % 3]
        if o["indent"]:
            line = ["  ", "\t", ""][ri % 3] + line
        lines.append(line)
        if o["blank_lines"] and ri % 2:
            lines.append("   ")
    text = "\n".join(lines) + "\n"
    if o["crlf"]:
        text = text.replace("\n", "\r\n")
    return text


def expected(doc):
    out = {"pairs": dict(doc["pairs"]), "tables": {}}
    for name, cols in doc["structs"]:
        rows = [vals for t, vals in doc["rows"] if t == name]
        out["tables"][name.upper()] = {cn: [r[j] for r in rows] for j, (cn, ct, dim) in enumerate(cols)}
    return out


def _norm(v):
    if isinstance(v, bytes):
        return v.decode()
    if isinstance(v, (list, tuple, np.ndarray)):
        return [_norm(x) for x in v]
    if isinstance(v, (np.integer,)):
        return int(v)
    if isinstance(v, (np.floating, float)):
        return float(v)
    if isinstance(v, str):
        try:
            return float(v) if ("." in v or "e" in v.lower()) and v.replace(".", "").replace("-", "").replace("e", "").isdigit() else v
        except ValueError:
            return v
    return v


def compare(par, doc, raw):
    exp = expected(doc)
    bad = []
    if sorted(par.tables()) != sorted(exp["tables"]):
        return ["tables %s != %s" % (par.tables(), sorted(exp["tables"]))]
    for t, cols in exp["tables"].items():
        if list(par.columns(t)) != list(cols):
            bad.append("columns of %s: %s" % (t, par.columns(t)))
            continue
        for c, want in cols.items():
            got = par[t][c]
            got = got.tolist() if hasattr(got, "tolist") else list(got)
            g, w = _norm(got), _norm(want)
            if raw:
                g = [[float(y) if isinstance(w[i], list) and w[i] and isinstance(w[i][0], float) else y for y in x] if isinstance(x, list) else x for i, x in enumerate(g)]
            if g != w:
                bad.append("%s.%s: %r != %r" % (t, c, g, w))
    for k, v in exp["pairs"].items():
        if k not in par.pairs() or par[k] != v:
            bad.append("pair %s: %r" % (k, par[k] if k in par.pairs() else None))
    if sorted(par.pairs()) != sorted(exp["pairs"]):
        bad.append("pairs %s" % (par.pairs(),))
    return bad


def parse(text, how, raw):
    from pydl.pydlutils.yanny import yanny
    with warnings.catch_warnings():
        warnings.simplefilter("ignore")
        if how == "text":
            class SIO(io.StringIO):
                mode = "r"
            return yanny(SIO(text), raw=raw)
        if how == "binary":
            class BIO(io.BytesIO):
                mode = "rb"
            return yanny(BIO(text.encode("ascii")), raw=raw)
        with tempfile.TemporaryDirectory() as tmp:
            fn = os.path.join(tmp, "f.par")
            with open(fn, "w", newline="") as f:
                f.write(text)
            return yanny(fn, raw=raw)


@register("C02")
class LayoutIndependence:
    name = "layout_independence"
    prop = "C02"
    target = "pydl.pydlutils.yanny:yanny (_parse, get_token, trailing_comment, type, isarray, array_length, char_length, dtype, convert)"
    level = "B"

    def run_job(self, tier, seed, exclusions):
        import time
        import traceback
        t0 = time.time()
        res = JobResult(job=self.name, target=self.target, level="B", prop="C02", obligations=[], failures=[], crashed=None,
                        bound="one logical document family x every combination of %d layout choices %s x {file name, text object, binary object} x {normal, raw}; "
                              "structure-name variants (plain, substring of each other, equal to a column name)" % (len(LAYOUT), LAYOUT),
                        paths=0, solver_s=0.0, queries=0, native_runs=0, native_failures=[], vacuity=None,
                        assumptions=["bounded enumeration; expected values computed from the logical document, independently of the parser"])
        active = {e["obligation"].split(":", 1)[1] for e in exclusions}
        fails = {}
        count = 0
        try:
            doc = logical_document()
            combos = list(itertools.product((0, 1), repeat=len(LAYOUT)))
            if tier == "quick":
                # all single and pairwise toggles plus a deterministic sample of the full product
                keep = [c for c in combos if sum(c) <= 2 or sum(c) >= len(LAYOUT) - 1]
                import random
                rnd = random.Random(seed)
                keep += rnd.sample(combos, 300)
                combos = sorted(set(keep))
            for opts in combos:
                text = render(doc, opts)
                for raw in (False, True):
                    hows = ("text",) if sum(opts) > 2 else ("text", "binary", "file")
                    for how in hows:
                        count += 1
                        try:
                            par = parse(text, how, raw)
                            bad = compare(par, doc, raw)
                        except Exception as e:
                            bad = ["raised %s: %s" % (type(e).__name__, e)]
                        if bad:
                            for i, k in enumerate(LAYOUT):
                                if opts[i] and sum(opts) <= 2:
                                    fails.setdefault("layout:" + k, []).append((bad[0], dict(options=[LAYOUT[j] for j in range(len(LAYOUT)) if opts[j]], how=how, raw=raw)))
                            if sum(opts) > 2 or sum(opts) == 0:
                                fails.setdefault("layout:combined", []).append((bad[0], dict(options=[LAYOUT[j] for j in range(len(LAYOUT)) if opts[j]], how=how, raw=raw)))
            # structure-name variants
            for kind, names in (("names_plain", ("GALAXY", "STAR")), ("names_substring", ("FOO", "FOOBAR")), ("names_equal_to_a_column", ("LABEL", "ID"))):
                d2 = logical_document(names)
                for opts in ((0,) * len(LAYOUT), tuple(1 if k in ("row_case", "interleave") else 0 for k in LAYOUT)):
                    for raw in (False, True):
                        count += 1
                        try:
                            bad = compare(parse(render(d2, opts), "text", raw), d2, raw)
                        except Exception as e:
                            bad = ["raised %s: %s" % (type(e).__name__, e)]
                        if bad and not ("structure_names:" + kind in active):
                            fails.setdefault("structure_names:" + kind, []).append((bad[0], dict(names=list(names), options=[LAYOUT[j] for j in range(len(LAYOUT)) if opts[j]], raw=raw)))
            # documents that reuse structure, column and enum names with OTHER definitions, read one after the other in one process
            # (what a reader learned from one document must not leak into the next)
            dA, dB = logical_document(("OBJ", "EXP")), other_document()
            for raw in (False, True):
                for seqno, dd in enumerate((dA, dB, dA, dB)):
                    count += 1
                    try:
                        bad = compare(parse(render(dd, (0,) * len(LAYOUT)), "text", raw), dd, raw)
                    except Exception as e:
                        bad = ["raised %s: %s" % (type(e).__name__, e)]
                    if bad:
                        fails.setdefault("structure_names:same_names_other_definitions_in_sequence", []).append((bad[0], dict(step=seqno, raw=raw)))
            res["paths"] = res["native_runs"] = count
            kinds = ["layout:" + k for k in LAYOUT] + ["layout:combined", "structure_names:same_names_other_definitions_in_sequence", "structure_names:names_plain", "structure_names:names_substring", "structure_names:names_equal_to_a_column"]
            for kd in kinds:
                b = fails.get(kd, [])
                d = dict(name="layout_independence:" + kd, path=0, status="unsat" if not b else "sat", secs=0.0, backend="native-exhaustive", size=0,
                         note="" if not b else b[0][0])
                if b:
                    d.update(inputs=dict(clause=kd, **b[0][1]), model=str(b[:3])[:1500], reason="")
                res["obligations"].append(d)
            res["vacuity"] = dict(renderings=count)
        except Exception:
            res["crashed"] = traceback.format_exc()
        res["wall_s"] = time.time() - t0
        return res

    def native_replay(self, inputs):
        if "same_names_other_definitions" in str(inputs.get("clause", "")):
            raw = inputs.get("raw", False)
            for seqno, dd in enumerate((logical_document(("OBJ", "EXP")), other_document()) * 2):
                try:
                    bad = compare(parse(render(dd, (0,) * len(LAYOUT)), "text", raw), dd, raw)
                except Exception as e:
                    bad = ["raised %s: %s" % (type(e).__name__, e)]
                if bad:
                    return (False, "document %d of the sequence A, B, A, B (raw=%s): %s" % (seqno, raw, bad[:2]))
            return (True, "sequence A, B, A, B parsed as written")
        names = tuple(inputs.get("names", ("OBJ", "EXP")))
        doc = logical_document(names)
        opts = tuple(1 if k in inputs.get("options", []) else 0 for k in LAYOUT)
        try:
            bad = compare(parse(render(doc, opts), inputs.get("how", "text"), inputs.get("raw", False)), doc, inputs.get("raw", False))
        except Exception as e:
            bad = ["raised %s: %s" % (type(e).__name__, e)]
        return (not bad, "structure names %s, layout %s: %s" % (names, inputs.get("options"), bad[:2]))
