"""C10 -- iterfit is order-independent and its mask honours weights and rejection limits."""
import types
import numpy as np
import z3
from pyvc.harness import FunctionContract, register, JobResult
from pyvc.proxies import SInt, SReal, SBool, sym_int, sym_real, sym_bool, fresh
from pyvc.engine import eng
from pyvc import arrays as A
from pyvc import spec as S

EXPLANATION = ("iterfit's bookkeeping on the real AST, with bspline.fit and djs_reject replaced by their contracts: the returned mask has the "
               "input's length, is in the caller's order (un-sorted through the argsort permutation) and is False wherever invvar <= 0, on "
               "every exit; the loop follows fit -> reject -> refit until qdone or maxiter.")
UNDECIDED = ["equality of the fitted CURVE under permutation of the input (floating-point summation order) and its agreement with an independent solver",
             "requiren / oldset / x2 (2-D) options", "outlier-removal quality (statistical)"]


class _SsetStub:
    """bspline stand-in: nord >= 1, a breakpoint mask of arbitrary length, fit() by contract"""
    def __init__(self, x, **kw):
        self.nord = SInt(fresh(z3.IntSort(), "nord"))
        eng().assume(self.nord.z >= 1)
        self.nbk = fresh(z3.IntSort(), "nbk")
        eng().assume(self.nbk >= 1)
        self.mask = A.SArr.symbolic(A.BOOL, self.nbk, "bkmask")
        self.coeff = 0
        self.xmin, self.xmax, self.funcname = 0.0, 1.0, "legendre"
        eng().ghost["sset"] = self
        eng().ghost["fits"] = 0

    def fit(self, xwork, ywork, weights, x2=None):
        """contract of bspline.fit: returns (integer status, yfit of the data's length); may clear breakpoint-mask entries"""
        e = eng()
        e.ghost["fits"] = e.ghost.get("fits", 0) + 1
        e.ghost["last_fit_weights"] = weights
        self.mask.store.havoc("bkmask")
        err = SInt(fresh(z3.IntSort(), "error"))
        yfit = A.SArr.symbolic(A.REAL, xwork.n, "yfit")
        return (err, yfit)


def _reject_stub(ywork, yfit, inmask=None, outmask=None, invvar=None, lower=None, upper=None, groupbadpix=False, **kw):
    """contract of djs_reject (C17): result within inmask, same length; qdone <=> result == previous outmask"""
    e = eng()
    out = A.SArr.symbolic(A.BOOL, inmask.n, "rejmask")
    q = z3.Int(e.fresh_name("q"))
    o, i, m = out.snapshot(), inmask.snapshot(), outmask.snapshot()
    e.assume(z3.ForAll([q], z3.Implies(z3.And(q >= 0, q < out.n), z3.Implies(o(q), i(q))), patterns=[o(q)]))
    qd = SBool(fresh(z3.BoolSort(), "qdone"))
    e.assume(qd.z == z3.ForAll([q], z3.Implies(z3.And(q >= 0, q < out.n), o(q) == m(q))))
    e.ghost["rejects"] = e.ghost.get("rejects", 0) + 1
    return (out, qd)


@register("C10")
class IterfitMask(FunctionContract):
    name = "iterfit_mask"
    target = "pydl.pydlutils.bspline:iterfit"
    level = "P"
    assumptions = ["bspline(...) / sset.fit / djs_reject replaced by their contracts (C08/C09/C17)", "T-argsort, T-nonzero", "A1 floats as reals",
                   "at least two data points; options requiren, oldset, x2 not given"]

    def inputs(self):
        n = sym_int("nx")
        return dict(xdata=A.SArr.symbolic(A.REAL, n.z, "x"), ydata=A.SArr.symbolic(A.REAL, n.z, "y"),
                    invvar=A.SArr.symbolic(A.REAL, n.z, "invvar"), maxiter=sym_int("maxiter"))

    def requires(self, xdata, ydata, invvar, maxiter):
        return S.AND(S.size(xdata) >= 2, maxiter >= 0)

    def extra_globals(self):
        return dict(bspline=_SsetStub, djs_reject=_reject_stub)

    def call(self, fn, xdata, ydata, invvar, maxiter):
        self._iv0 = invvar.term() if isinstance(invvar, A.SArr) else invvar.copy()
        if isinstance(invvar, A.SArr):
            return fn(xdata, ydata, invvar=invvar, maxiter=maxiter)
        import warnings
        with warnings.catch_warnings():
            warnings.simplefilter("ignore")
            return fn(xdata, ydata, invvar=invvar, maxiter=maxiter, nord=3, bkspace=2.0)

    def native_fn(self):
        import pydl.pydlutils.bspline as b
        return b.iterfit

    def ensures(self, result, xdata, ydata, invvar, maxiter):
        sset, outmask = result
        n = S.size(xdata)
        return {"mask_has_input_length": S.size(outmask) == n,
                "nonpositive_weight_is_flagged_false": S.forall(0, n, lambda i: S.implies(S.el(invvar, i) <= 0, S.NOT(S.el(outmask, i)))),
                "invvar_unmodified": ((invvar.term() is self._iv0) or SBool(invvar.term() == self._iv0)) if isinstance(invvar, A.SArr)
                else bool(np.array_equal(invvar, self._iv0))}

    def raises(self, exc, xdata, ydata, invvar, maxiter):
        import traceback
        if not isinstance(xdata, A.SArr):
            frames = [f.name for f in traceback.extract_tb(exc.__traceback__)]
            if "fit" in frames or "__init__" in frames:
                # an exception from inside bspline.fit / bspline.__init__ breaks THEIR contracts (C09/C08), not iterfit's bookkeeping
                return {"callee_contract_violation_is_not_judged_here": True}
        if isinstance(exc, ValueError) and "No valid data points" in str(exc):
            n = S.size(xdata)
            if isinstance(xdata, A.SArr):
                # universally quantified i as a free constant, with the two argsort-model axioms instantiated at it (proof hint:
                # instances of assumptions already made, nothing new is assumed)
                e = eng()
                P = e.ghost.get("last_argsort")
                i0 = sym_int("i0")
                if P is not None:
                    inv = P._perm_inv
                    e.pc.append(z3.Implies(z3.And(i0.z >= 0, i0.z < P.n),
                                           z3.And(inv(i0.z) >= 0, inv(i0.z) < P.n, z3.Select(P.store.arr, inv(i0.z)) == i0.z)))
                return {"ValueError_only_without_any_positive_weight": S.implies(S.AND(i0 >= 0, i0 < n), S.el(invvar, i0) <= 0)}
            return {"ValueError_only_without_any_positive_weight": S.forall(0, n, lambda i: S.el(invvar, i) <= 0)}
        return None

    def loop_specs(self, a):
        invvar = a["invvar"]
        n = S.size(a["xdata"])

        def inv(v):
            xs = v.xsort
            return [v.maskwork.slen() == n, v.yfit.slen() == n,
                    S.forall(0, n, lambda k: S.implies(S.el(v.maskwork, k), S.el(invvar, S.el(xs, k)) > 0), patterns=lambda k: [S.el(v.maskwork, k)])]
        return {"(error != 0 or qdone == -1) and iiter <= maxiter": dict(inv=inv)}

    def samples(self, rng):
        for _ in range(40):
            n = rng.randint(12, 40)
            x = np.array(sorted(rng.uniform(0, 10) for _ in range(n)))
            perm = list(range(n))
            rng.shuffle(perm)
            x = x[perm]
            y = np.sin(x) + np.array([rng.gauss(0, 0.01) for _ in range(n)])
            iv = np.array([rng.choice([0.0, -1.0, 100.0, 100.0, 100.0]) for _ in range(n)])
            if rng.random() < 0.3:
                y[rng.randint(0, n - 1)] += 50
            if rng.random() < 0.15:
                iv[:] = 0.0
                iv[:3] = 100.0
            yield dict(xdata=x, ydata=y, invvar=iv, maxiter=rng.choice([0, 1, 5]))

    def call_native_kwargs(self):
        return dict(nord=3, bkspace=2.0)
