"""C10 -- iterfit is order-independent and its mask honours weights and rejection limits."""
import types
import numpy as np
import z3
from pyvc.harness import FunctionContract, register, JobResult
from pyvc.proxies import SInt, SReal, SBool, sym_int, sym_real, sym_bool, fresh
from pyvc.engine import eng
from pyvc import arrays as A
from pyvc import spec as S

EXPLANATION = ("iterfit's bookkeeping on the real AST, with bspline.fit and djs_reject replaced by their contracts: the returned mask has the "
               "input's length, is in the caller's order (un-sorted through the argsort permutation) and is False wherever invvar <= 0, on "
               "every exit; the loop follows fit -> reject -> refit until qdone or maxiter.")
UNDECIDED = ["equality of the fitted CURVE under permutation of the input (floating-point summation order) and its agreement with an independent solver",
             "requiren / oldset / x2 (2-D) options", "outlier-removal quality (statistical)"]


class _SsetStub:
    """bspline stand-in: nord >= 1, a breakpoint mask of arbitrary length, fit() by contract"""
    def __init__(self, x, **kw):
        self.nord = SInt(fresh(z3.IntSort(), "nord"))
        eng().assume(self.nord.z >= 1)
        self.nbk = fresh(z3.IntSort(), "nbk")
        eng().assume(self.nbk >= 1)
        self.mask = A.SArr.symbolic(A.BOOL, self.nbk, "bkmask")
        self.coeff = 0
        self.xmin, self.xmax, self.funcname = 0.0, 1.0, "legendre"
        eng().ghost["sset"] = self
        eng().ghost["fits"] = 0

    def fit(self, xwork, ywork, weights, x2=None):
        """contract of bspline.fit: returns (integer status, yfit of the data's length); may clear breakpoint-mask entries"""
        e = eng()
        e.ghost["fits"] = e.ghost.get("fits", 0) + 1
        e.ghost["last_fit_weights"] = weights
        self.mask.store.havoc("bkmask")
        err = SInt(fresh(z3.IntSort(), "error"))
        yfit = A.SArr.symbolic(A.REAL, xwork.n, "yfit")
        return (err, yfit)


def _reject_stub(ywork, yfit, inmask=None, outmask=None, invvar=None, lower=None, upper=None, groupbadpix=False, **kw):
    """contract of djs_reject (C17): result within inmask, same length; qdone <=> result == previous outmask"""
    e = eng()
    out = A.SArr.symbolic(A.BOOL, inmask.n, "rejmask")
    q = z3.Int(e.fresh_name("q"))
    o, i, m = out.snapshot(), inmask.snapshot(), outmask.snapshot()
    e.assume(z3.ForAll([q], z3.Implies(z3.And(q >= 0, q < out.n), z3.Implies(o(q), i(q))), patterns=[o(q)]))
    qd = SBool(fresh(z3.BoolSort(), "qdone"))
    e.assume(qd.z == z3.ForAll([q], z3.Implies(z3.And(q >= 0, q < out.n), o(q) == m(q))))
    e.ghost["rejects"] = e.ghost.get("rejects", 0) + 1
    return (out, qd)


@register("C10")
class IterfitMask(FunctionContract):
    name = "iterfit_mask"
    target = "pydl.pydlutils.bspline:iterfit"
    level = "P"
    assumptions = ["bspline(...) / sset.fit / djs_reject replaced by their contracts (C08/C09/C17)", "T-argsort, T-nonzero", "A1 floats as reals",
                   "at least two data points; options requiren, oldset, x2 not given"]

    def inputs(self):
        n = sym_int("nx")
        return dict(xdata=A.SArr.symbolic(A.REAL, n.z, "x"), ydata=A.SArr.symbolic(A.REAL, n.z, "y"),
                    invvar=A.SArr.symbolic(A.REAL, n.z, "invvar"), maxiter=sym_int("maxiter"))

    def requires(self, xdata, ydata, invvar, maxiter):
        return S.AND(S.size(xdata) >= 2, maxiter >= 0)

    def extra_globals(self):
        return dict(bspline=_SsetStub, djs_reject=_reject_stub)

    def call(self, fn, xdata, ydata, invvar, maxiter):
        self._iv0 = invvar.term() if isinstance(invvar, A.SArr) else invvar.copy()
        if isinstance(invvar, A.SArr):
            return fn(xdata, ydata, invvar=invvar, maxiter=maxiter)
        import warnings
        with warnings.catch_warnings():
            warnings.simplefilter("ignore")
            return fn(xdata, ydata, invvar=invvar, maxiter=maxiter, nord=3, bkspace=2.0)

    def native_fn(self):
        import pydl.pydlutils.bspline as b
        return b.iterfit

    def ensures(self, result, xdata, ydata, invvar, maxiter):
        sset, outmask = result
        n = S.size(xdata)
        return {"mask_has_input_length": S.size(outmask) == n,
                "nonpositive_weight_is_flagged_false": S.forall(0, n, lambda i: S.implies(S.el(invvar, i) <= 0, S.NOT(S.el(outmask, i)))),
                "invvar_unmodified": ((invvar.term() is self._iv0) or SBool(invvar.term() == self._iv0)) if isinstance(invvar, A.SArr)
                else bool(np.array_equal(invvar, self._iv0))}

    def raises(self, exc, xdata, ydata, invvar, maxiter):
        import traceback
        if not isinstance(xdata, A.SArr):
            frames = [f.name for f in traceback.extract_tb(exc.__traceback__)]
            if "fit" in frames or "__init__" in frames:
                # an exception from inside bspline.fit / bspline.__init__ breaks THEIR contracts (C09/C08), not iterfit's bookkeeping
                return {"callee_contract_violation_is_not_judged_here": True}
        if isinstance(exc, ValueError) and "No valid data points" in str(exc):
            n = S.size(xdata)
            if isinstance(xdata, A.SArr):
                # universally quantified i as a free constant, with the two argsort-model axioms instantiated at it (proof hint:
                # instances of assumptions already made, nothing new is assumed)
                e = eng()
                P = e.ghost.get("last_argsort")
                i0 = sym_int("i0")
                if P is not None:
                    inv = P._perm_inv
                    e.pc.append(z3.Implies(z3.And(i0.z >= 0, i0.z < P.n),
                                           z3.And(inv(i0.z) >= 0, inv(i0.z) < P.n, z3.Select(P.store.arr, inv(i0.z)) == i0.z)))
                return {"ValueError_only_without_any_positive_weight": S.implies(S.AND(i0 >= 0, i0 < n), S.el(invvar, i0) <= 0)}
            return {"ValueError_only_without_any_positive_weight": S.forall(0, n, lambda i: S.el(invvar, i) <= 0)}
        return None

    def loop_specs(self, a):
        invvar = a["invvar"]
        n = S.size(a["xdata"])

        def inv(v):
            xs = v.xsort
            return [v.maskwork.slen() == n, v.yfit.slen() == n,
                    S.forall(0, n, lambda k: S.implies(S.el(v.maskwork, k), S.el(invvar, S.el(xs, k)) > 0), patterns=lambda k: [S.el(v.maskwork, k)])]
        return {"iiter <= maxiter": dict(inv=inv)}

    def samples(self, rng):
        for _ in range(40):
            n = rng.randint(12, 40)
            x = np.array(sorted(rng.uniform(0, 10) for _ in range(n)))
            perm = list(range(n))
            rng.shuffle(perm)
            x = x[perm]
            y = np.sin(x) + np.array([rng.gauss(0, 0.01) for _ in range(n)])
            iv = np.array([rng.choice([0.0, -1.0, 100.0, 100.0, 100.0]) for _ in range(n)])
            if rng.random() < 0.3:
                y[rng.randint(0, n - 1)] += 50
            if rng.random() < 0.15:
                iv[:] = 0.0
                iv[:3] = 100.0
            yield dict(xdata=x, ydata=y, invvar=iv, maxiter=rng.choice([0, 1, 5]))

    def call_native_kwargs(self):
        return dict(nord=3, bkspace=2.0)



@register("C10")
class IterfitProtocol:
    """fit -> reject beyond lower/upper sigma -> refit until nothing changes or maxiter, against an independent dense least-squares solver;
    permuting the input permutes the mask identically and leaves the curve unchanged (bounded, numerical)"""
    name = "iterfit_protocol"
    prop = "C10"
    target = "pydl.pydlutils.bspline:iterfit"
    level = "B"
    KINDS = ("permutation:mask_permuted_identically", "permutation:curve_unchanged", "weights:nonpositive_flagged_false",
             "protocol:refits_until_qdone_or_maxiter", "protocol:mask_of_the_documented_procedure", "protocol:curve_of_the_documented_procedure",
             "no_unexpected_exception")

    @staticmethod
    def _design(x, knots, nord):
        from scipy.interpolate import BSpline
        k = nord - 1
        return BSpline.design_matrix(np.clip(x, knots[k], knots[-k - 1]), knots, k).toarray()

    def _reference(self, x, y, iv, knots, nord, lower, upper, maxiter):
        xs = np.argsort(x, kind="stable")
        xw, yw, ivw = x[xs], y[xs], iv[xs]
        mask = ivw > 0
        D = self._design(xw, knots, nord)
        nfits, it, done, coeff = 0, 0, False, None
        self._cond = 1.0
        while not done and it <= maxiter:
            sw = np.sqrt(ivw * mask)
            sol = np.linalg.lstsq(D * sw[:, None], yw * sw, rcond=None)
            coeff = sol[0]
            sv = sol[3]
            self._cond = max(self._cond, (sv[0] / sv[-1]) if sv[-1] > 0 else np.inf)
            nfits += 1
            it += 1
            diff = yw - D @ coeff
            bad = (diff * np.sqrt(np.abs(ivw)) < -lower) | (diff * np.sqrt(np.abs(ivw)) > upper)
            new = mask & ~bad
            done = bool(np.all(new == mask))
            mask = new
        out = np.ones(x.size, dtype=bool)
        out[xs] = mask
        return out, coeff, nfits

    def _case(self, rng, rep, seed):
        n = rng.randint(40, 90)
        x = np.sort(np.array([rng.uniform(0, 10) for _ in range(n)]))
        y = np.sin(x) + np.array([rng.gauss(0, 0.02) for _ in range(n)])
        iv = np.full(n, 2500.0)
        for _ in range(rng.randint(0, 3)):
            y[rng.randint(3, n - 4)] += rng.choice([-1, 1]) * rng.uniform(20, 50)
        for _ in range(rng.randint(0, 4)):
            iv[rng.randint(0, n - 1)] = rng.choice([0.0, -1.0])
        nord = rng.randint(2, 4)
        bks = rng.choice([1.0, 1.5, 2.5])
        maxiter = rng.choice([0, 1, 10])
        lower, upper = rng.choice([(5, 5), (4, 30), (30, 4)])
        sparse = (rep % 3 == 2)
        if sparse:
            # sparse sampling: some breakpoint intervals hold exactly one point
            keep = np.zeros(n, dtype=bool)
            edges = np.arange(0.0, 10.0 + bks, bks)
            for a_, b_ in zip(edges[:-1], edges[1:]):
                inside = np.nonzero((x >= a_) & (x < b_) & (iv > 0))[0]
                if inside.size:
                    keep[inside[: (1 if rng.random() < 0.5 else 3)]] = True
            keep[:nord + 1] = True
            keep[-(nord + 1):] = True
            x, y, iv = x[keep], y[keep], iv[keep]
            n = int(x.size)
        return dict(x=x, y=y, iv=iv, n=n, nord=nord, bks=bks, maxiter=maxiter, lower=lower, upper=upper,
                    inp=dict(rep=rep, seed=seed, n=n, nord=nord, bkspace=bks, maxiter=maxiter, lower=lower, upper=upper, sparse=sparse))

    def _check_case(self, c, rng, note):
        import pydl.pydlutils.bspline as bmod
        from pydl.pydlutils.bspline import iterfit
        x, y, iv, n, inp = c["x"], c["y"], c["iv"], c["n"], c["inp"]
        orig_fit = bmod.bspline.fit
        results = []
        for order in ("sorted", "reversed", "shuffled"):
            perm = list(range(n))
            if order == "reversed":
                perm.reverse()
            elif order == "shuffled":
                rng.shuffle(perm)
            perm = np.array(perm)
            calls = [0]

            def counting(self_, *a, **k):
                calls[0] += 1
                return orig_fit(self_, *a, **k)
            bmod.bspline.fit = counting
            try:
                sset, m = iterfit(x[perm], y[perm], invvar=iv[perm], nord=c["nord"], bkspace=c["bks"], maxiter=c["maxiter"], lower=c["lower"], upper=c["upper"])
            finally:
                bmod.bspline.fit = orig_fit
            back = np.empty(n, dtype=bool)
            back[perm] = m
            if np.isscalar(sset.coeff):
                curve = None
            else:
                yy, inside = sset.value(x)
                curve = np.where(inside, yy, 0.0)         # compared inside the breakpoint range only
            results.append((order, back, curve, calls[0], sset))
        base = results[0]
        for order, back, curve, nf, sset in results[1:]:
            if not np.array_equal(back, base[1]):
                note("permutation:mask_permuted_identically", "%s order: mask differs at %s" % (order, np.nonzero(back != base[1])[0][:5]), inp)
            if curve is not None and base[2] is not None and not np.allclose(curve[base[1]], base[2][base[1]], rtol=1e-6, atol=1e-8):
                note("permutation:curve_unchanged", "%s order: curve differs by %g" % (order, np.abs(curve - base[2])[base[1]].max()), inp)
        if np.any(base[1][iv <= 0]):
            note("weights:nonpositive_flagged_false", "a point with invvar <= 0 is flagged True", inp)
        sset = base[4]
        if np.isscalar(sset.coeff) or not np.all(sset.mask):
            return          # degenerate / masked breakpoints: the reference solver has no counterpart
        knots = np.asarray(sset.breakpoints, dtype=float)
        refmask, refcoeff, refn = self._reference(x, y, iv, knots, c["nord"], c["lower"], c["upper"], c["maxiter"])
        refcurve = self._design(x, knots, c["nord"]) @ refcoeff
        k = c["nord"] - 1
        refcurve = np.where((x >= knots[k]) & (x <= knots[-k - 1]), refcurve, 0.0)
        if self._cond > 1.0e6:
            return          # (nearly) rank-deficient weighted problem: "every segment supported by data" fails, the optimum is not unique
        if base[3] != refn:
            note("protocol:refits_until_qdone_or_maxiter", "iterfit made %d fits, the documented procedure %d (maxiter=%d)" % (base[3], refn, c["maxiter"]), inp)
        if not np.array_equal(base[1], refmask):
            note("protocol:mask_of_the_documented_procedure", "mask differs at %s" % (np.nonzero(base[1] != refmask)[0][:5],), inp)
        else:
            # compared where the final fit is constrained by data (points still flagged good); elsewhere a spline segment without
            # data is not determined by least squares
            good = base[1]
            if not np.allclose(base[2][good], refcurve[good], rtol=1e-5, atol=1e-6):
                note("protocol:curve_of_the_documented_procedure", "curve differs by %g" % np.abs(base[2][good] - refcurve[good]).max(), inp)

    def run_job(self, tier, seed, exclusions):
        import random
        import time
        import traceback
        import warnings
        t0 = time.time()
        res = JobResult(job=self.name, target=self.target, level="B", prop="C10", obligations=[], failures=[], crashed=None,
                        bound="generated data sets (smooth signal + noise, 0..3 injected outliers, random zero/negative weights, dense and sparse sampling incl. "
                              "single-point intervals), orders 2..4, three breakpoint spacings, maxiter 0/1/10, symmetric and asymmetric limits, three input orders each",
                        paths=0, solver_s=0.0, queries=0, native_runs=0, native_failures=[], vacuity=None,
                        assumptions=["numerical comparison (1e-5 relative) with numpy.linalg.lstsq on the scipy B-spline design matrix over the knots iterfit chose"])
        fails = {}

        def note(kind, msg, inp):
            fails.setdefault(kind, []).append((msg, inp))
        try:
            rng = random.Random(seed * 13 + 5)
            nrep = 30 if tier == "quick" else 240
            count = 0
            with warnings.catch_warnings():
                warnings.simplefilter("ignore")
                for rep in range(nrep):
                    c = self._case(rng, rep, seed)
                    try:
                        self._check_case(c, rng, note)
                    except Exception as e:
                        note("no_unexpected_exception", "%s: %s" % (type(e).__name__, str(e)[:150]), c["inp"])
                    count += 3
            res["paths"] = res["native_runs"] = count
            for kd in self.KINDS:
                b = fails.get(kd, [])
                d = dict(name="iterfit_protocol:" + kd, path=0, status="unsat" if not b else "sat", secs=0.0, backend="native-numeric", size=0,
                         note="" if not b else b[0][0])
                if b:
                    d.update(inputs=dict(clause=kd, **b[0][1]), model=str(b[:2])[:1000], reason="")
                res["obligations"].append(d)
            res["vacuity"] = dict(fits=count)
        except Exception:
            res["crashed"] = traceback.format_exc()
        res["wall_s"] = time.time() - t0
        return res

    def native_replay(self, inputs):
        import random
        import warnings
        rng = random.Random(int(inputs.get("seed", 0)) * 13 + 5)
        fails = {}
        with warnings.catch_warnings():
            warnings.simplefilter("ignore")
            for rep in range(int(inputs.get("rep", 0)) + 1):
                c = self._case(rng, rep, inputs.get("seed", 0))
                f = {}
                try:
                    self._check_case(c, rng, lambda k, m, i: f.setdefault(k, []).append(m))
                except Exception as e:
                    f.setdefault("no_unexpected_exception", []).append("%s: %s" % (type(e).__name__, e))
                fails = f
        return (not fails, "generated case rep=%s seed=%s: %s" % (inputs.get("rep"), inputs.get("seed"), {k: v[0] for k, v in fails.items()}))


# the callee contracts iterfit's proof relies on are part of this property's check (a change inside djs_reject that breaks ITS
# contract breaks C10 through the modular argument): the inverse-variance forms of djs_reject used by iterfit
import contracts.c17 as _c17
for _nm in ("Reject_invvar_inout", "Reject_invvar_inx"):
    _base = getattr(_c17, _nm)
    _cls = type("Callee_" + _nm, (_base,), dict(name="callee_" + _base.name, __module__=__name__))
    globals()[_cls.__name__] = register("C10")(_cls)
