"""C17 -- rejection, mask interpolation and sky masking act on exactly the intended pixels."""
import itertools
import numpy as np
import z3
from pyvc.harness import FunctionContract, register, JobResult
from pyvc.proxies import SInt, SReal, SBool, sym_int, sym_real, sym_bool
from pyvc import arrays as A
from pyvc import spec as S

EXPLANATION = ("djs_reject: mask algebra (inmask, sticky, three limits in units of sigma / 1/sqrt(invvar) / absolute, qdone) proved for "
               "arrays of every length with grow=0; growth by neighbours decided as a bounded stand-in on the real code.")
UNDECIDED = ["djs_reject with maxrej/groupdim/groupsize/groupbadpix (sorting-based partial rejection)",
             "djs_maskinterp / djs_maskinterp1, aesthetics, djs_median (reflect), skymask: only bounded numerical stand-ins against independent reference implementations (B), not proved",
             "np.interp / medfilt kernels (trusted, T)"]


def _bad(i, diff, sigma, invvar, lower, upper, maxdev):
    """residual i exceeds a requested limit (from the property statement / docstring):
    data < model - lower*sigma, data > model + upper*sigma (sigma or 1/sqrt(invvar)), |data-model| > maxdev"""
    d = diff(i)
    cl = []
    if lower is not None:
        cl.append(d < (-lower) * sigma(i) if sigma is not None else d * S.sqrt(invvar(i)) < -lower)
    if upper is not None:
        cl.append(d > upper * sigma(i) if sigma is not None else d * S.sqrt(invvar(i)) > upper)
    if maxdev is not None:
        cl.append(S.absval(d) > maxdev)
    return S.OR(*cl) if cl else False


class _Reject(FunctionContract):
    target = "pydl.pydlutils.math:djs_reject"
    level = "P"
    sigma_kind = "scalar"
    assumptions = ["A1 floats as reals", "limits non-negative (lower, upper >= 0, maxdev > 0), sigma >= 0, invvar >= 0",
                   "maxrej not given (the sorting-based partial rejection is not under contract)", "1-D arrays of any length"]
    max_paths = 400

    masks = (False, False)

    def cases(self, tier):
        return [(lims, self.masks) for lims in itertools.product((False, True), repeat=3)]

    def case_label(self):
        (lo, up, md), (im, om) = self.case
        return "[%s%s%s|%s%s]" % ("L" if lo else "-", "U" if up else "-", "M" if md else "-", "in" if im else "--", "out" if om else "---")

    def inputs(self):
        (lo, up, md), (im, om) = self.case
        n = sym_int("n")
        d = dict(data=A.SArr.symbolic(A.REAL, n.z, "data"), model=A.SArr.symbolic(A.REAL, n.z, "model"),
                 outmask=A.SArr.symbolic(A.BOOL, n.z, "outmask") if om else None,
                 inmask=A.SArr.symbolic(A.BOOL, n.z, "inmask") if im else None,
                 sigma=None, invvar=None,
                 lower=sym_real("lower") if lo else None, upper=sym_real("upper") if up else None,
                 maxdev=sym_real("maxdev") if md else None, sticky=sym_bool("sticky"), grow=0)
        if self.sigma_kind == "scalar":
            d["sigma"] = sym_real("sigma")
        elif self.sigma_kind == "array":
            d["sigma"] = A.SArr.symbolic(A.REAL, n.z, "sigma")
        elif self.sigma_kind == "invvar":
            d["invvar"] = A.SArr.symbolic(A.REAL, n.z, "invvar")
        elif self.sigma_kind == "both":
            # both supplied: "If both sigma and invvar are set, invvar will be ignored" -- the limits are in units of the supplied sigma
            d["sigma"] = A.SArr.symbolic(A.REAL, n.z, "sigma")
            d["invvar"] = A.SArr.symbolic(A.REAL, n.z, "invvar")
        return d

    def requires(self, data, model, outmask, inmask, sigma, invvar, lower, upper, maxdev, sticky, grow):
        n = S.size(data)
        cl = [n >= 1]
        if lower is not None:
            cl.append(lower >= 0)
        if upper is not None:
            cl.append(upper >= 0)
        if maxdev is not None:
            cl.append(maxdev > 0)
        if sigma is not None:
            if isinstance(sigma, (A.SArr, np.ndarray)):
                cl.append(S.forall(0, n, lambda i: S.el(sigma, i) >= 0))
            else:
                cl.append(sigma >= 0)
        if invvar is not None:
            cl.append(S.forall(0, n, lambda i: S.el(invvar, i) >= 0))
        return S.AND(*cl)

    def call(self, fn, **a):
        self._om0 = a["outmask"].copy() if a["outmask"] is not None else None
        return fn(a["data"], a["model"], outmask=a["outmask"], inmask=a["inmask"], sigma=a["sigma"], invvar=a["invvar"],
                  lower=a["lower"], upper=a["upper"], maxdev=a["maxdev"], grow=a["grow"], sticky=a["sticky"])

    def _pieces(self, data, model, outmask, inmask, sigma, invvar, **_):
        diff = lambda i: S.el(data, i) - S.el(model, i)
        if sigma is None:
            sg = None
        elif isinstance(sigma, (A.SArr, np.ndarray)):
            sg = lambda i: S.el(sigma, i)
        else:
            sg = lambda i: sigma
        iv = (lambda i: S.el(invvar, i)) if invvar is not None else None
        om0 = self._om0
        im = (lambda i: S.el(inmask, i)) if inmask is not None else (lambda i: True)
        om = (lambda i: S.el(om0, i)) if om0 is not None else (lambda i: True)
        return diff, sg, iv, im, om

    def ensures(self, result, **a):
        out, qdone = result
        n = S.size(a["data"])
        diff, sg, iv, im, om = self._pieces(**a)
        lower, upper, maxdev, sticky = a["lower"], a["upper"], a["maxdev"], a["sticky"]
        if sg is None and iv is None and (lower is not None or upper is not None):
            return {"length": S.size(out) == n}      # sigma estimated from the data (np.std): only the frame is stated

        def good(i):
            eligible = S.AND(im(i), S.OR(S.NOT(sticky), om(i)))
            return S.AND(eligible, S.NOT(_bad(i, diff, sg, iv, lower, upper, maxdev)))
        return {
            "length": S.size(out) == n,
            "mask_is_exactly_the_unrejected_points": S.forall(0, n, lambda i: S.iff(S.el(out, i), good(i))),
            "qdone_iff_mask_unchanged": S.iff(qdone, S.forall(0, n, lambda i: S.iff(S.el(out, i), om(i)))),
        }

    def samples(self, rng):
        for _ in range(250):
            n = rng.randint(1, 6)
            lo, up, md = (rng.random() < 0.6 for _ in range(3))
            d = dict(data=np.array([rng.choice([-8.0, -3.0, -1.0, 0.0, 1.0, 3.0, 8.0]) + rng.uniform(-.1, .1) for _ in range(n)]),
                     model=np.zeros(n), outmask=np.array([rng.random() < 0.8 for _ in range(n)]) if rng.random() < 0.7 else None,
                     inmask=np.array([rng.random() < 0.8 for _ in range(n)]) if rng.random() < 0.5 else None, sigma=None, invvar=None,
                     lower=rng.choice([0.0, 2.0, 3.0]) if lo else None, upper=rng.choice([0.0, 2.0, 3.0]) if up else None,
                     maxdev=rng.choice([0.5, 5.0]) if md else None, sticky=rng.random() < 0.5, grow=0)
            if self.sigma_kind == "scalar":
                d["sigma"] = rng.choice([0.0, 1.0, 2.5])
            elif self.sigma_kind == "array":
                d["sigma"] = np.array([rng.choice([0.0, 1.0, 2.5]) for _ in range(n)])
            elif self.sigma_kind == "invvar":
                d["invvar"] = np.array([rng.choice([0.0, 1.0, 0.25]) for _ in range(n)])
            elif self.sigma_kind == "both":
                d["sigma"] = np.array([rng.choice([0.0, 1.0, 2.5]) for _ in range(n)])
                d["invvar"] = np.array([rng.choice([0.0, 1.0, 0.01, 100.0]) for _ in range(n)])      # deliberately inconsistent with sigma
            yield d


for _k in ("scalar", "array", "invvar", "none"):
    for _m in itertools.product((False, True), repeat=2):
        _nm = "%s_%s%s" % (_k, "in" if _m[0] else "x", "out" if _m[1] else "x")
        _cls = type("Reject_" + _nm, (_Reject,), dict(sigma_kind=_k, masks=_m, name="djs_reject_sigma_" + _nm, __module__=__name__))
        globals()[_cls.__name__] = register("C17")(_cls)


for _m in ((False, False), (True, True)):
    _nm = "both_%s%s" % ("in" if _m[0] else "x", "out" if _m[1] else "x")
    _cls = type("Reject_" + _nm, (_Reject,), dict(sigma_kind="both", masks=_m, name="djs_reject_sigma_" + _nm, __module__=__name__))
    globals()[_cls.__name__] = register("C17")(_cls)


class _RejectGrow(FunctionContract):
    """djs_reject with grow=N: the N nearest neighbours on each side of every rejected point are rejected too (bounded stand-in)"""
    name = "djs_reject_grow"
    target = "pydl.pydlutils.math:djs_reject"
    level = "B"
    sizes = (1, 2)
    bound = "arrays of length 1..3 (quick) / 1..4 (thorough), grow 1..2 (3 in thorough), every pattern of points beyond the limit, every inmask/outmask, sticky on/off"
    max_paths = 100000
    budget_s = 200
    job_budget_s = 400
    assumptions = ["A1 floats as reals", "real function on numpy object arrays of symbolic values: object-array semantics = float-array semantics"]

    def cases(self, tier):
        grows = (1, 2) if tier == "quick" else (1, 2, 3)
        return [(n, g, st) for n in self.sizes for g in grows for st in (False, True)]

    def inputs(self):
        n, g, st = self.case
        data = np.empty((n,), dtype=object)
        inm = np.empty((n,), dtype=object)
        outm = np.empty((n,), dtype=object)
        for i in range(n):
            data[i] = sym_real("d%d" % i)
            inm[i] = sym_bool("in%d" % i)
            outm[i] = sym_bool("out%d" % i)
        return dict(data=data, inmask=inm, outmask=outm, grow=g, sticky=st)

    def requires(self, data, inmask, outmask, grow, sticky):
        return S.AND(*[d > 0 for d in data])       # residuals on the positive side: the only limit in play is `upper`

    def call(self, fn, data, inmask, outmask, grow, sticky):
        n = len(data)
        self._om0 = outmask.copy()
        return fn(data, np.zeros(n), outmask=outmask, inmask=inmask, sigma=np.ones(n), upper=3.0, grow=grow, sticky=sticky)

    def ensures(self, result, data, inmask, outmask, grow, sticky):
        out, qdone = result
        n = len(data)
        om0 = self._om0
        elig = [bool(inmask[i]) and ((not sticky) or bool(om0[i])) for i in range(n)]
        bad = [elig[i] and bool(data[i] > 3.0) for i in range(n)]
        want = [elig[i] and not any(bad[j] for j in range(n) if abs(i - j) <= grow) for i in range(n)]
        got = [bool(out[i]) for i in range(n)]
        same = all(bool(out[i]) == bool(om0[i]) for i in range(n))
        return {"neighbours_of_rejected_points_rejected": got == want, "qdone_iff_mask_unchanged": bool(qdone) == same,
                "length": len(out) == n}

    def samples(self, rng):
        for _ in range(200):
            n = rng.randint(1, 8)
            yield dict(data=np.array([rng.choice([0.5, 0.5, 1.0, 10.0]) for _ in range(n)]),
                       inmask=np.array([rng.random() < 0.85 for _ in range(n)]), outmask=np.array([rng.random() < 0.85 for _ in range(n)]),
                       grow=rng.randint(1, 4), sticky=rng.random() < 0.5)


for _sz, _tiers in (((1, 2), "a"), ((3,), "b")):
    _cls = type("RejectGrow_" + _tiers, (_RejectGrow,), dict(sizes=_sz, name="djs_reject_grow_n" + "".join(map(str, _sz)), __module__=__name__))
    globals()[_cls.__name__] = register("C17")(_cls)


@register("C17")
class RejectGrow4(_RejectGrow):
    name = "djs_reject_grow_n4"
    sizes = (4,)

    def cases(self, tier):
        return super().cases(tier) if tier == "thorough" else []


# ---------------------------------------------------------------------------
# mask interpolation, aesthetics, reflecting median, sky mask: bounded stand-ins against independent reference implementations
# ---------------------------------------------------------------------------
def _ref_maskinterp1(y, mask, x=None):
    """masked samples -> linear interpolation between the nearest unmasked neighbours (in index, or in x), end values held constant"""
    y = np.asarray(y, dtype=float)
    n = y.size
    good = [i for i in range(n) if mask[i] == 0]
    if len(good) == n or len(good) == 0:
        return y.copy()
    if len(good) == 1:
        return np.full(n, y[good[0]])
    pos = np.arange(n, dtype=float) if x is None else np.asarray(x, dtype=float)
    out = y.copy()
    order = sorted(good, key=lambda i: pos[i])
    for i in range(n):
        if mask[i] == 0:
            continue
        below = [g for g in order if pos[g] <= pos[i]]
        above = [g for g in order if pos[g] >= pos[i]]
        if not below:
            out[i] = y[order[0]]
        elif not above:
            out[i] = y[order[-1]]
        else:
            a, b = below[-1], above[0]
            out[i] = y[a] if pos[a] == pos[b] else y[a] + (pos[i] - pos[a]) / (pos[b] - pos[a]) * (y[b] - y[a])
    return out


from pyvc.numeric import NumericJob as _NumericJob


@register("C17")
class MaskInterp(_NumericJob):
    name = "djs_maskinterp"
    target = "pydl.pydlutils.image:djs_maskinterp, djs_maskinterp1"
    bound = "1-D arrays of length 1..12 and 2-D / 3-D arrays up to 4x5x3, every axis, random masks incl. all/none/one good, x ascending / descending / shuffled, const on/off"
    KINDS = ("masked_samples_interpolated_between_nearest_good_neighbours", "unmasked_samples_unchanged", "input_not_modified")
    NQ, NT = 400, 4000

    def _cases(self, rng, n):
        for rep in range(n):
            nd = rng.choice([1, 1, 2, 3])
            shape = (rng.randint(1, 12),) if nd == 1 else ((rng.randint(1, 4), rng.randint(2, 5)) if nd == 2 else (rng.randint(1, 3), rng.randint(2, 4), rng.randint(2, 3)))
            y = np.array([rng.uniform(-5, 5) for _ in range(int(np.prod(shape)))]).reshape(shape)
            pm = rng.choice([0.0, 0.2, 0.5, 0.9, 1.0])
            mask = np.array([1 if rng.random() < pm else 0 for _ in range(y.size)]).reshape(shape)
            axis = None if nd == 1 else rng.randint(0, nd - 1)
            xk = rng.choice(["none", "ascending", "descending", "shuffled"])
            x = None
            if xk != "none":
                x = np.zeros(shape)
                it = np.nditer(np.zeros([s for k, s in enumerate(shape) if nd == 1 or k != self._line_axis(nd, axis)] or [1]), flags=["multi_index"])
                x = np.apply_along_axis(lambda v: self._xline(rng, v.size, xk), 0 if nd == 1 else self._line_axis(nd, axis), x)
            yield dict(y=y, mask=mask, x=x, axis=axis, const=rng.random() < 0.5,
                       inp=dict(rep=rep, shape=list(shape), axis=axis, x=xk, masked_fraction=pm))

    @staticmethod
    def _line_axis(nd, axis):
        """djs_maskinterp's convention: axis=0 interpolates along the LAST index of a 2-D array (rows), see the code's loops"""
        if nd == 2:
            return 1 if axis == 0 else 0
        return {0: 2, 1: 1, 2: 0}[axis]

    @staticmethod
    def _xline(rng, n, kind):
        v = np.cumsum([rng.uniform(0.5, 2.0) for _ in range(n)])
        if kind == "descending":
            v = v[::-1].copy()
        elif kind == "shuffled":
            v = v.copy()
            rng.shuffle(v)
        return v

    def _check(self, c):
        from pydl.pydlutils.image import djs_maskinterp
        y, mask, x, axis = c["y"], c["mask"], c["x"], c["axis"]
        y0 = y.copy()
        out = djs_maskinterp(y, mask, xval=x, axis=axis, const=c["const"])
        bad = []
        if not np.array_equal(y, y0):
            bad.append(("input_not_modified", "yval changed in place"))
        nd = y.ndim
        la = 0 if nd == 1 else self._line_axis(nd, axis)
        exp = np.zeros(y.shape)
        ym, mm = np.moveaxis(y0, la, -1), np.moveaxis(mask, la, -1)
        xm = None if x is None else np.moveaxis(x, la, -1)
        em = np.moveaxis(exp, la, -1)
        for idx in np.ndindex(*ym.shape[:-1]):
            em[idx] = _ref_maskinterp1(ym[idx], mm[idx], None if xm is None else xm[idx])
        out = np.asarray(out, dtype=float)
        if out.shape != y.shape:
            return bad + [("masked_samples_interpolated_between_nearest_good_neighbours", "shape %s" % (out.shape,))]
        if not np.allclose(out[mask == 0], y0[mask == 0], rtol=0, atol=0):
            bad.append(("unmasked_samples_unchanged", "an unmasked sample changed"))
        if not np.allclose(out, exp, rtol=1e-10, atol=1e-12):
            w = np.unravel_index(np.abs(out - exp).argmax(), out.shape)
            bad.append(("masked_samples_interpolated_between_nearest_good_neighbours", "at %s got %g expected %g" % (w, out[w], exp[w])))
        return bad


@register("C17")
class Aesthetics(_NumericJob):
    name = "aesthetics"
    target = "pydl.pydlspec2d.spec2d:aesthetics"
    bound = "spectra of 5..40 pixels, random zero-weight patterns incl. none / all / ends, the four methods traditional, noconst, mean, nothing"
    KINDS = ("flux_changes_only_where_invvar_is_zero", "replacement_rule_of_the_method", "inputs_not_modified")
    NQ, NT = 300, 3000

    def _cases(self, rng, n):
        for rep in range(n):
            m = rng.randint(5, 40)
            flux = np.array([rng.uniform(-5, 5) for _ in range(m)])
            pz = rng.choice([0.0, 0.1, 0.4, 1.0])
            iv = np.array([0.0 if rng.random() < pz else rng.uniform(0.5, 2) for _ in range(m)])
            if rng.random() < 0.3:
                iv[:rng.randint(1, 3)] = 0.0
                iv[-rng.randint(1, 3):] = 0.0
            yield dict(flux=flux, iv=iv, method=rng.choice(["traditional", "noconst", "mean", "nothing"]), inp=dict(rep=rep, npix=m, zero_fraction=pz))

    def _check(self, c):
        from pydl.pydlspec2d.spec2d import aesthetics
        flux, iv, method = c["flux"], c["iv"], c["method"]
        f0, i0 = flux.copy(), iv.copy()
        out = np.asarray(aesthetics(flux, iv, method=method), dtype=float)
        bad = []
        if not (np.array_equal(flux, f0) and np.array_equal(iv, i0)):
            bad.append(("inputs_not_modified", "flux or invvar changed in place (method %s)" % method))
        if out.shape != f0.shape or not np.array_equal(out[i0 != 0], f0[i0 != 0]):
            bad.append(("flux_changes_only_where_invvar_is_zero", "method %s changed a pixel with non-zero inverse variance" % method))
        zero = i0 == 0
        if zero.any() and not zero.all() and out.shape == f0.shape:
            if method in ("traditional", "noconst"):
                exp = _ref_maskinterp1(f0, zero.astype(int))
            elif method == "mean":
                exp = np.where(zero, f0[~zero].mean(), f0)
            else:
                exp = f0
            if not np.allclose(out, exp, rtol=1e-10, atol=1e-12):
                bad.append(("replacement_rule_of_the_method", "method %s: max deviation %g" % (method, np.abs(out - exp).max())))
        return bad


@register("C17")
class ReflectMedian(_NumericJob):
    name = "djs_median_reflect"
    target = "pydl.pydlutils.math:djs_median"
    bound = "1-D arrays of length 3..30, odd widths 3..min(n, 11), boundary='reflect' against scipy.ndimage.median_filter(mode='reflect')"
    KINDS = ("equals_median_filter_with_symmetric_reflection", "input_not_modified")
    NQ, NT = 300, 3000

    def _cases(self, rng, n):
        for rep in range(n):
            m = rng.randint(3, 30)
            w = rng.choice([k for k in range(3, min(m, 11) + 1, 2)])
            yield dict(a=np.array([rng.uniform(-5, 5) for _ in range(m)]), w=w, inp=dict(rep=rep, n=m, width=w))

    def _check(self, c):
        from scipy.ndimage import median_filter
        from pydl.pydlutils.math import djs_median
        a, w = c["a"], c["w"]
        a0 = a.copy()
        out = np.asarray(djs_median(a, width=w, boundary="reflect"), dtype=float)
        bad = []
        if not np.array_equal(a, a0):
            bad.append(("input_not_modified", "array changed in place"))
        exp = median_filter(a0, size=w, mode="reflect")
        if out.shape != exp.shape or not np.allclose(out, exp, rtol=0, atol=1e-12):
            bad.append(("equals_median_filter_with_symmetric_reflection", "n=%d width=%d: %s vs %s" % (a0.size, w, np.round(out, 3).tolist()[:6], np.round(exp, 3).tolist()[:6])))
        return bad


@register("C17")
class SkyMask(_NumericJob):
    name = "skymask"
    target = "pydl.pydlspec2d.spec1d:skymask"
    bound = "1..3 rows of 8..40 pixels, mask dtypes int16/int32/int64/uint64, random BADSKYCHI/REDMONSTER/other flags incl. at the row ends, ngrow 0..4"
    KINDS = ("zero_exactly_within_ngrow_of_a_flagged_pixel", "inputs_not_modified")
    NQ, NT = 300, 3000
    BITS = {"BADSKYCHI": 22, "REDMONSTER": 28, "BRIGHTSKY": 23, "NOPLUG": 0}

    def _cases(self, rng, n):
        for rep in range(n):
            rows, npix = rng.randint(1, 3), rng.randint(8, 40)
            dt = rng.choice(["int16", "int32", "int64", "uint64"])
            om = np.zeros((rows, npix), dtype=dt)
            for r in range(rows):
                for _ in range(rng.randint(0, 3)):
                    p = rng.choice([0, 1, npix - 2, npix - 1, rng.randint(0, npix - 1)])
                    which = rng.choice(["BADSKYCHI", "REDMONSTER", "BRIGHTSKY", "NOPLUG", "SIGN"])
                    if which == "SIGN":
                        om[r, p] = {"int16": -32768, "int32": -1, "int64": -1, "uint64": 2 ** 63}[dt]
                    elif not (dt == "int16" and self.BITS[which] > 14):
                        om[r, p] |= np.array(2 ** self.BITS[which], dtype=dt)
            # the stored word as an unsigned Python integer (two's complement of the stored width); bits 22 and 28 are the flags that count
            width = 8 * om.dtype.itemsize
            flagged = np.array([[((int(v) % 2 ** width) >> 22) & 1 or ((int(v) % 2 ** width) >> 28) & 1 for v in row] for row in om], dtype=bool)
            iv = np.array([[rng.uniform(0.5, 2) for _ in range(npix)] for _ in range(rows)])
            yield dict(iv=iv, om=om, flagged=flagged, ngrow=rng.randint(0, 4), inp=dict(rep=rep, rows=rows, npix=npix, dtype=dt))

    def _check(self, c):
        from unittest import mock
        import pydl.pydlutils.sdss as sd
        from pydl.pydlspec2d.spec1d import skymask
        iv, om, flagged, g = c["iv"], c["om"], c["flagged"], c["ngrow"]
        if 2 * g + 1 > iv.shape[1]:
            g = 0
        iv0, om0 = iv.copy(), om.copy()
        with mock.patch.object(sd, "maskbits", {"SPPIXMASK": dict(self.BITS)}):
            out = skymask(iv, om.copy(), ormask=om, ngrow=g)
        bad = []
        if not (np.array_equal(iv, iv0) and np.array_equal(om, om0)):
            bad.append(("inputs_not_modified", "invvar or mask changed in place"))
        exp = iv0.copy()
        for r in range(iv.shape[0]):
            for p in range(iv.shape[1]):
                if flagged[r, max(0, p - g):p + g + 1].any():
                    exp[r, p] = 0.0
        if out.shape != exp.shape or not np.array_equal(np.asarray(out, dtype=float), exp):
            w = np.argwhere(np.asarray(out, dtype=float) != exp)[:3].tolist()
            bad.append(("zero_exactly_within_ngrow_of_a_flagged_pixel", "dtype %s ngrow %d: differs at %s" % (om.dtype, g, w)))
        return bad


# ---------------------------------------------------------------------------
# djs_reject with grow: any length, any grow >= 1 (level P; the grow loop is cut at its invariant)
# ---------------------------------------------------------------------------
class _RejectGrowAll(_Reject):
    """outmask[i] <=> eligible(i) and no rejected point within `grow` samples of i, for arrays of every length and every grow >= 1"""
    sigma_kind = "array"
    level = "P"
    max_paths = 800
    # the invariant-step and the final postcondition alternate quantifiers: z3 does not decide them, cvc5 does in about a second --
    # short z3 budget, cvc5 first among the fall-backs, generous cvc5 limit so that a busy machine does not flip the verdict
    wall_ms = 5_000
    fb_limit = 24
    fb_first = "cvc5"
    cvc5_tlimit_ms = 120_000
    assumptions = _Reject.assumptions + ["grow >= 1 symbolic; index arrays derived from the nonzero enumeration are modelled position-wise (T-nonzero)"]

    def cases(self, tier):
        if self.masks == (True, True):
            return [((False, True, False), self.masks)]      # with inmask / outmask / sticky only the upper limit: all three limits are undecided by z3 and cvc5
        return [((False, True, False), self.masks), ((True, True, True), self.masks)]

    def inputs(self):
        d = _Reject.inputs(self)
        d["grow"] = sym_int("grow")
        return d

    def requires(self, **a):
        return S.AND(_Reject.requires(self, **a), a["grow"] >= 1)

    def _rejected(self, a):
        diff, sg, iv, im, om = self._pieces(**a)
        lower, upper, maxdev, sticky = a["lower"], a["upper"], a["maxdev"], a["sticky"]

        def bad(i):
            eligible = S.AND(im(i), S.OR(S.NOT(sticky), om(i)))
            return S.AND(eligible, _bad(i, diff, sg, iv, lower, upper, maxdev))
        return bad, (lambda i: S.AND(im(i), S.OR(S.NOT(sticky), om(i))))

    def ensures(self, result, **a):
        out, qdone = result
        n, g = S.size(a["data"]), a["grow"]
        bad, elig = self._rejected(a)
        om = self._pieces(**a)[4]
        near = lambda i: S.exists(0, n, lambda p: S.AND(bad(p), p - i <= g, i - p <= g))
        return {"length": S.size(out) == n,
                "mask_is_eligible_and_not_within_grow_of_a_rejected_point": S.forall(0, n, lambda i: S.iff(S.el(out, i), S.AND(elig(i), S.NOT(near(i))))),
                "qdone_iff_mask_unchanged": S.iff(qdone, S.forall(0, n, lambda i: S.iff(S.el(out, i), om(i))))}

    def loop_specs(self, a):
        n = S.size(a["data"])

        def inv(v):
            rej = v.rejects
            return [v.newmask.slen() == n, v.k >= 1,
                    S.forall(0, n, lambda q: S.iff(S.el(v.newmask, q), S.NOT(S.exists(0, n, lambda p: S.AND(S.el(rej, p), p - q <= v.k - 1, q - p <= v.k - 1)))))]
        return {"range(1, grow": dict(inv=inv)}

    def samples(self, rng):
        for d in _Reject.samples(self, rng):
            d["grow"] = rng.randint(1, 3)
            yield d


for _m in ((False, False), (True, True)):
    _nm = "%s%s" % ("in" if _m[0] else "x", "out" if _m[1] else "x")
    _cls = type("RejectGrowAll_" + _nm, (_RejectGrowAll,), dict(masks=_m, name="djs_reject_grow_all_sizes_" + _nm, __module__=__name__))
    globals()[_cls.__name__] = register("C17")(_cls)
