"""C17 -- rejection, mask interpolation and sky masking act on exactly the intended pixels."""
import itertools
import numpy as np
import z3
from pyvc.harness import FunctionContract, register, JobResult
from pyvc.proxies import SInt, SReal, SBool, sym_int, sym_real, sym_bool
from pyvc import arrays as A
from pyvc import spec as S

EXPLANATION = ("djs_reject: mask algebra (inmask, sticky, three limits in units of sigma / 1/sqrt(invvar) / absolute, qdone) proved for "
               "arrays of every length with grow=0; growth by neighbours decided as a bounded stand-in on the real code.")
UNDECIDED = ["djs_reject with maxrej/groupdim/groupsize/groupbadpix (sorting-based partial rejection)",
             "djs_maskinterp / djs_maskinterp1, aesthetics, djs_median (reflect), skymask: not yet under contract",
             "np.interp / medfilt kernels (trusted, T)"]


def _bad(i, diff, sigma, invvar, lower, upper, maxdev):
    """residual i exceeds a requested limit (from the property statement / docstring):
    data < model - lower*sigma, data > model + upper*sigma (sigma or 1/sqrt(invvar)), |data-model| > maxdev"""
    d = diff(i)
    cl = []
    if lower is not None:
        cl.append(d < (-lower) * sigma(i) if sigma is not None else d * S.sqrt(invvar(i)) < -lower)
    if upper is not None:
        cl.append(d > upper * sigma(i) if sigma is not None else d * S.sqrt(invvar(i)) > upper)
    if maxdev is not None:
        cl.append(S.absval(d) > maxdev)
    return S.OR(*cl) if cl else False


class _Reject(FunctionContract):
    target = "pydl.pydlutils.math:djs_reject"
    level = "P"
    sigma_kind = "scalar"
    assumptions = ["A1 floats as reals", "limits non-negative (lower, upper >= 0, maxdev > 0), sigma >= 0, invvar >= 0",
                   "maxrej not given (the sorting-based partial rejection is not under contract)", "1-D arrays of any length"]
    max_paths = 400

    masks = (False, False)

    def cases(self, tier):
        return [(lims, self.masks) for lims in itertools.product((False, True), repeat=3)]

    def case_label(self):
        (lo, up, md), (im, om) = self.case
        return "[%s%s%s|%s%s]" % ("L" if lo else "-", "U" if up else "-", "M" if md else "-", "in" if im else "--", "out" if om else "---")

    def inputs(self):
        (lo, up, md), (im, om) = self.case
        n = sym_int("n")
        d = dict(data=A.SArr.symbolic(A.REAL, n.z, "data"), model=A.SArr.symbolic(A.REAL, n.z, "model"),
                 outmask=A.SArr.symbolic(A.BOOL, n.z, "outmask") if om else None,
                 inmask=A.SArr.symbolic(A.BOOL, n.z, "inmask") if im else None,
                 sigma=None, invvar=None,
                 lower=sym_real("lower") if lo else None, upper=sym_real("upper") if up else None,
                 maxdev=sym_real("maxdev") if md else None, sticky=sym_bool("sticky"), grow=0)
        if self.sigma_kind == "scalar":
            d["sigma"] = sym_real("sigma")
        elif self.sigma_kind == "array":
            d["sigma"] = A.SArr.symbolic(A.REAL, n.z, "sigma")
        elif self.sigma_kind == "invvar":
            d["invvar"] = A.SArr.symbolic(A.REAL, n.z, "invvar")
        return d

    def requires(self, data, model, outmask, inmask, sigma, invvar, lower, upper, maxdev, sticky, grow):
        n = S.size(data)
        cl = [n >= 1]
        if lower is not None:
            cl.append(lower >= 0)
        if upper is not None:
            cl.append(upper >= 0)
        if maxdev is not None:
            cl.append(maxdev > 0)
        if sigma is not None:
            if isinstance(sigma, (A.SArr, np.ndarray)):
                cl.append(S.forall(0, n, lambda i: S.el(sigma, i) >= 0))
            else:
                cl.append(sigma >= 0)
        if invvar is not None:
            cl.append(S.forall(0, n, lambda i: S.el(invvar, i) >= 0))
        return S.AND(*cl)

    def call(self, fn, **a):
        self._om0 = a["outmask"].copy() if a["outmask"] is not None else None
        return fn(a["data"], a["model"], outmask=a["outmask"], inmask=a["inmask"], sigma=a["sigma"], invvar=a["invvar"],
                  lower=a["lower"], upper=a["upper"], maxdev=a["maxdev"], grow=a["grow"], sticky=a["sticky"])

    def _pieces(self, data, model, outmask, inmask, sigma, invvar, **_):
        diff = lambda i: S.el(data, i) - S.el(model, i)
        if sigma is None:
            sg = None
        elif isinstance(sigma, (A.SArr, np.ndarray)):
            sg = lambda i: S.el(sigma, i)
        else:
            sg = lambda i: sigma
        iv = (lambda i: S.el(invvar, i)) if invvar is not None else None
        om0 = self._om0
        im = (lambda i: S.el(inmask, i)) if inmask is not None else (lambda i: True)
        om = (lambda i: S.el(om0, i)) if om0 is not None else (lambda i: True)
        return diff, sg, iv, im, om

    def ensures(self, result, **a):
        out, qdone = result
        n = S.size(a["data"])
        diff, sg, iv, im, om = self._pieces(**a)
        lower, upper, maxdev, sticky = a["lower"], a["upper"], a["maxdev"], a["sticky"]
        if sg is None and iv is None and (lower is not None or upper is not None):
            return {"length": S.size(out) == n}      # sigma estimated from the data (np.std): only the frame is stated

        def good(i):
            eligible = S.AND(im(i), S.OR(S.NOT(sticky), om(i)))
            return S.AND(eligible, S.NOT(_bad(i, diff, sg, iv, lower, upper, maxdev)))
        return {
            "length": S.size(out) == n,
            "mask_is_exactly_the_unrejected_points": S.forall(0, n, lambda i: S.iff(S.el(out, i), good(i))),
            "qdone_iff_mask_unchanged": S.iff(qdone, S.forall(0, n, lambda i: S.iff(S.el(out, i), om(i)))),
        }

    def samples(self, rng):
        for _ in range(250):
            n = rng.randint(1, 6)
            lo, up, md = (rng.random() < 0.6 for _ in range(3))
            d = dict(data=np.array([rng.choice([-8.0, -3.0, -1.0, 0.0, 1.0, 3.0, 8.0]) + rng.uniform(-.1, .1) for _ in range(n)]),
                     model=np.zeros(n), outmask=np.array([rng.random() < 0.8 for _ in range(n)]) if rng.random() < 0.7 else None,
                     inmask=np.array([rng.random() < 0.8 for _ in range(n)]) if rng.random() < 0.5 else None, sigma=None, invvar=None,
                     lower=rng.choice([0.0, 2.0, 3.0]) if lo else None, upper=rng.choice([0.0, 2.0, 3.0]) if up else None,
                     maxdev=rng.choice([0.5, 5.0]) if md else None, sticky=rng.random() < 0.5, grow=0)
            if self.sigma_kind == "scalar":
                d["sigma"] = rng.choice([0.0, 1.0, 2.5])
            elif self.sigma_kind == "array":
                d["sigma"] = np.array([rng.choice([0.0, 1.0, 2.5]) for _ in range(n)])
            elif self.sigma_kind == "invvar":
                d["invvar"] = np.array([rng.choice([0.0, 1.0, 0.25]) for _ in range(n)])
            yield d


for _k in ("scalar", "array", "invvar", "none"):
    for _m in itertools.product((False, True), repeat=2):
        _nm = "%s_%s%s" % (_k, "in" if _m[0] else "x", "out" if _m[1] else "x")
        _cls = type("Reject_" + _nm, (_Reject,), dict(sigma_kind=_k, masks=_m, name="djs_reject_sigma_" + _nm, __module__=__name__))
        globals()[_cls.__name__] = register("C17")(_cls)


class _RejectGrow(FunctionContract):
    """djs_reject with grow=N: the N nearest neighbours on each side of every rejected point are rejected too (bounded stand-in)"""
    name = "djs_reject_grow"
    target = "pydl.pydlutils.math:djs_reject"
    level = "B"
    sizes = (1, 2)
    bound = "arrays of length 1..3 (quick) / 1..4 (thorough), grow 1..2 (3 in thorough), every pattern of points beyond the limit, every inmask/outmask, sticky on/off"
    max_paths = 100000
    budget_s = 200
    job_budget_s = 400
    assumptions = ["A1 floats as reals", "real function on numpy object arrays of symbolic values: object-array semantics = float-array semantics"]

    def cases(self, tier):
        grows = (1, 2) if tier == "quick" else (1, 2, 3)
        return [(n, g, st) for n in self.sizes for g in grows for st in (False, True)]

    def inputs(self):
        n, g, st = self.case
        data = np.empty((n,), dtype=object)
        inm = np.empty((n,), dtype=object)
        outm = np.empty((n,), dtype=object)
        for i in range(n):
            data[i] = sym_real("d%d" % i)
            inm[i] = sym_bool("in%d" % i)
            outm[i] = sym_bool("out%d" % i)
        return dict(data=data, inmask=inm, outmask=outm, grow=g, sticky=st)

    def requires(self, data, inmask, outmask, grow, sticky):
        return S.AND(*[d > 0 for d in data])       # residuals on the positive side: the only limit in play is `upper`

    def call(self, fn, data, inmask, outmask, grow, sticky):
        n = len(data)
        self._om0 = outmask.copy()
        return fn(data, np.zeros(n), outmask=outmask, inmask=inmask, sigma=np.ones(n), upper=3.0, grow=grow, sticky=sticky)

    def ensures(self, result, data, inmask, outmask, grow, sticky):
        out, qdone = result
        n = len(data)
        om0 = self._om0
        elig = [bool(inmask[i]) and ((not sticky) or bool(om0[i])) for i in range(n)]
        bad = [elig[i] and bool(data[i] > 3.0) for i in range(n)]
        want = [elig[i] and not any(bad[j] for j in range(n) if abs(i - j) <= grow) for i in range(n)]
        got = [bool(out[i]) for i in range(n)]
        same = all(bool(out[i]) == bool(om0[i]) for i in range(n))
        return {"neighbours_of_rejected_points_rejected": got == want, "qdone_iff_mask_unchanged": bool(qdone) == same,
                "length": len(out) == n}

    def samples(self, rng):
        for _ in range(200):
            n = rng.randint(1, 8)
            yield dict(data=np.array([rng.choice([0.5, 0.5, 1.0, 10.0]) for _ in range(n)]),
                       inmask=np.array([rng.random() < 0.85 for _ in range(n)]), outmask=np.array([rng.random() < 0.85 for _ in range(n)]),
                       grow=rng.randint(1, 4), sticky=rng.random() < 0.5)


for _sz, _tiers in (((1, 2), "a"), ((3,), "b")):
    _cls = type("RejectGrow_" + _tiers, (_RejectGrow,), dict(sizes=_sz, name="djs_reject_grow_n" + "".join(map(str, _sz)), __module__=__name__))
    globals()[_cls.__name__] = register("C17")(_cls)


@register("C17")
class RejectGrow4(_RejectGrow):
    name = "djs_reject_grow_n4"
    sizes = (4,)

    def cases(self, tier):
        return super().cases(tier) if tier == "thorough" else []
