"""C13 -- trace sets: bases are the textbook polynomials and fit/evaluate are consistent."""
import itertools
import types
import numpy as np
import z3
from pyvc.harness import FunctionContract, register, JobResult
from pyvc.proxies import SInt, SReal, SBool, sym_real, sym_bool
from pyvc.engine import eng
from pyvc import arrays as A
from pyvc import spec as S

EXPLANATION = ("Legendre, Chebyshev, monomial and split-Chebyshev bases: the real functions run on a symbolic abscissa equal the textbook "
               "recurrences for orders 1..12 (array and scalar form); func_fit: returned coefficients satisfy the weighted normal equations on "
               "the free parameters, fixed ones keep their values, yfit = basis^T . coefficients (bounded shapes, symbolic data and weights).")
UNDECIDED = ["conditioning / exact recovery in floating point", "TraceSet construction from FITS, xnorm jump handling and traceset2xy: not under contract in this version",
             "np.linalg.solve replaced by its contract A x = b (T-solve)"]


@register("C13")
class Bases:
    name = "bases_textbook"
    prop = "C13"
    target = "pydl.goddard.math:flegendre; pydl.pydlutils.trace:fchebyshev, fchebyshev_split, fpoly"
    level = "C"

    def run_job(self, tier, seed, exclusions):
        import time
        import traceback
        import sympy as sp
        from pyvc import amode
        from pyvc.engine import Engine
        t0 = time.time()
        maxm = 12
        res = JobResult(job=self.name, target=self.target, level="C", prop="C13", obligations=[], failures=[], crashed=None,
                        bound="orders m = 1..%d, one generic (symbolic) abscissa in the array form; the scalar form at 15 sample abscissae" % maxm,
                        paths=0, solver_s=0.0, queries=0, native_runs=0, native_failures=[], vacuity=None,
                        assumptions=["symbolic abscissa as a sympy symbol in a numpy object array: the real function body is executed by CPython/numpy",
                                     "scipy.special.legendre/chebyt coefficient objects are concrete floats: equality coefficient-wise within 1e-10 (not an exact identity)",
                                     "element-wise uniformity over the abscissa array (A3)"])

        def ob(name, ok, note=""):
            d = dict(name="bases_textbook:" + name, path=0, status="unsat" if ok else "sat", secs=0.0, backend="polyid", size=0, note="" if ok else note)
            if not ok:
                d.update(inputs=None, model=note, reason="")
            res["obligations"].append(d)

        def close_poly(e, want, x):
            d = sp.Poly(sp.expand(sp.sympify(e) - want), x)
            return all(abs(complex(c)) < 1e-10 for c in d.all_coeffs())
        try:
            Engine.current = Engine("bases")
            x = sp.Symbol("x", real=True)
            fns = {"flegendre": amode.load("pydl.goddard.math:flegendre").fn, "fchebyshev": amode.load("pydl.pydlutils.trace:fchebyshev").fn,
                   "fpoly": amode.load("pydl.pydlutils.trace:fpoly").fn, "fchebyshev_split": amode.load("pydl.pydlutils.trace:fchebyshev_split").fn}
            P = [sp.Integer(1), x]
            T = [sp.Integer(1), x]
            for k in range(2, maxm + 2):
                P.append(sp.expand(((2 * k - 1) * x * P[k - 1] - (k - 1) * P[k - 2]) / k))
                T.append(sp.expand(2 * x * T[k - 1] - T[k - 2]))
            for m in range(1, maxm + 1):
                for form in ("array",):
                    arg = np.empty((1,), dtype=object)
                    arg[0] = x
                    for nm, want in (("flegendre", P), ("fchebyshev", T), ("fpoly", [x ** k for k in range(maxm + 2)])):
                        out = fns[nm](arg, m)
                        res["paths"] += 1
                        ok = out.shape == (m, 1) and all(close_poly(out[k, 0], want[k], x) for k in range(m))
                        ob("%s[m=%d,%s]" % (nm, m, form), ok, "rows %s" % [str(out[k, 0]) for k in range(min(m, 4))])
                if m >= 2:
                    for sgn, step in (("positive", 1), ("negative", 0)):
                        xs = sp.Symbol("x", **{sgn: True})
                        arg = np.empty((1,), dtype=object)
                        arg[0] = xs
                        out = fns["fchebyshev_split"](arg, m)
                        res["paths"] += 1
                        Ts = [sp.Integer(1), xs]
                        for k in range(2, maxm + 2):
                            Ts.append(sp.expand(2 * xs * Ts[k - 1] - Ts[k - 2]))
                        want = [sp.Integer(step)] + Ts
                        got0 = out[0, 0]
                        got0 = sp.Integer(1) if got0 is True or got0 == sp.true else (sp.Integer(0) if got0 is False or got0 == sp.false else got0)
                        ok = out.shape == (m, 1) and sp.simplify(sp.sympify(got0) - want[0]) == 0 and \
                            all(close_poly(out[k, 0], want[k], xs) for k in range(1, m))
                        ob("fchebyshev_split[m=%d,x %s]" % (m, sgn), ok, "rows %s" % [str(out[k, 0]) for k in range(min(m, 4))])
            # scalar calling form: values at 15 abscissae against the textbook polynomials (bounded, native)
            for m in range(1, maxm + 1):
                for nm, want in (("flegendre", P), ("fchebyshev", T), ("fpoly", [x ** k for k in range(maxm + 2)])):
                    ok = True
                    for j in range(15):
                        xv = -1.0 + j / 7.0
                        out = fns[nm](xv, m)
                        ok = ok and out.shape == (m, 1) and all(abs(float(out[k, 0]) - float(want[k].subs(x, xv))) < 1e-9 for k in range(m))
                    ob("%s_scalar_form[m=%d]" % (nm, m), ok, "scalar form differs from the textbook value")
            # argument validation
            for nm, bad in (("flegendre", 0), ("fchebyshev", 0), ("fpoly", 0), ("fchebyshev_split", 1)):
                try:
                    fns[nm](np.array([0.5]), bad)
                    ob("%s_rejects_order_%d" % (nm, bad), False, "no ValueError")
                except ValueError:
                    ob("%s_rejects_order_%d" % (nm, bad), True)
            res["vacuity"] = dict(orders=maxm)
        except Exception:
            res["crashed"] = traceback.format_exc()
        res["wall_s"] = time.time() - t0
        return res


# ---------------------------------------------------------------------------
class _LinalgShim:
    """np.linalg with solve replaced by its contract: x fresh with A x = b (T-solve); the system is recorded for the postcondition"""
    def __getattr__(self, name):
        return getattr(np.linalg, name)

    def solve(self, a, b):
        a = np.asarray(a, dtype=object)
        b = np.asarray(b, dtype=object)
        n = len(b)
        xs = np.empty((n,), dtype=object)
        e = eng()
        e.assumptions_used.add("T-solve: numpy.linalg.solve(A, b) returns x with A x = b")
        for j in range(n):
            xs[j] = sym_real("sol%d" % j)
        for i in range(n):
            acc = 0
            for j in range(n):
                acc = acc + a[i, j] * xs[j]
            e.assume((acc == b[i]).z if hasattr(acc == b[i], "z") else z3.BoolVal(bool(acc == b[i])))
        e.ghost.setdefault("solve_calls", []).append((a, b, xs))
        return xs


class _NpWithSolve:
    def __init__(self, base):
        self._b = base
        self.linalg = _LinalgShim()

    def __getattr__(self, name):
        return getattr(self._b, name)


def _basis_rows(name, xs, m):
    import pydl.pydlutils.trace as tr
    from pydl.goddard.math import flegendre
    f = {"legendre": flegendre, "chebyshev": tr.fchebyshev, "poly": tr.fpoly}[name]
    return f(np.array(xs, dtype=float), m)


@register("C13")
class FuncFitNormal(FunctionContract):
    """func_fit: weighted normal equations on the free coefficients, fixed ones untouched, yfit = basis^T . res"""
    name = "func_fit"
    target = "pydl.pydlutils.trace:func_fit"
    level = "B"
    bound = "3..4 abscissae (concrete, distinct), ncoeff 2..3, legendre/chebyshev/poly, all coefficients free or one fixed; data and weights symbolic reals (weights >= 0)"
    nl_mode = "nra"
    max_paths = 5000
    assumptions = ["A1 floats as reals", "abscissae concrete (the basis values are then concrete floats); data, weights, prescribed coefficients symbolic"]

    def cases(self, tier):
        out = []
        for fn in ("legendre", "chebyshev", "poly"):
            for npts, nc in ((3, 2), (4, 3)) if tier == "quick" else ((3, 2), (4, 2), (4, 3), (5, 3)):
                for fixed in (None, 0, nc - 1):
                    out.append((fn, npts, nc, fixed))
        return out

    def inputs(self):
        fn, npts, nc, fixed = self.case
        xs = np.linspace(-1.0, 1.0, npts)
        y = np.empty((npts,), dtype=object)
        w = np.empty((npts,), dtype=object)
        for i in range(npts):
            y[i] = sym_real("y%d" % i)
            w[i] = sym_real("w%d" % i)
        ia = np.ones((nc,), dtype=bool)
        inputans = None
        if fixed is not None:
            ia[fixed] = False
            inputans = np.empty((nc,), dtype=object)
            for k in range(nc):
                inputans[k] = sym_real("c%d" % k)
        return dict(x=xs, y=y, invvar=w, ncoeff=nc, function_name=fn, ia=ia, inputans=inputans)

    def requires(self, x, y, invvar, ncoeff, function_name, ia, inputans):
        # "fitting problems with enough good points": at least ncoeff points carry positive weight, or none / exactly one does
        cnt = 0
        for w in invvar:
            cnt = cnt + S.ite(w > 0, 1, 0)
        return S.AND(*[w >= 0 for w in invvar], S.OR(cnt >= ncoeff, cnt <= 1))

    def extra_globals(self):
        return {}

    def call(self, fn, x, y, invvar, ncoeff, function_name, ia, inputans):
        g = getattr(fn, "__globals__", None)
        if g is not None and "__pv" in g and not isinstance(g["np"], _NpWithSolve):
            g["np"] = _NpWithSolve(g["np"])
        if S.is_sym(*y):
            xo = np.empty(x.shape, dtype=object)
            for i in range(len(x)):
                xo[i] = float(x[i])
            return fn(xo, y, ncoeff, invvar=invvar, function_name=function_name, ia=ia, inputans=inputans)
        return fn(x, y, ncoeff, invvar=invvar, function_name=function_name, ia=ia,
                  inputans=None if inputans is None else np.asarray(inputans, dtype=float))

    def ensures(self, result, x, y, invvar, ncoeff, function_name, ia, inputans):
        res, yfit = result
        n = len(x)
        sym = S.is_sym(*y)
        good = [bool(invvar[i] > 0) for i in range(n)]
        ngood = sum(good)
        out = {"shapes": len(res) == ncoeff and len(yfit) == n}
        if ngood == 0:
            out["no_good_point_gives_zero"] = all(bool(S.eq(r, 0.0)) for r in res)
            return out
        if ngood == 1:
            i0 = good.index(True)
            out["single_good_point_gives_constant"] = bool(S.eq(res[0], y[i0])) and all(bool(S.eq(v, y[i0])) for v in yfit)
            return out
        ncfit = min(ngood, ncoeff)
        phi = _basis_rows(function_name, x, ncfit)
        free = [k for k in range(ncfit) if ia[k]]
        fixed = [k for k in range(ncfit) if not ia[k]]
        cl = []
        tol = 1e-7
        for j in free:
            acc = 0
            for i in range(n):
                model = 0
                for k in range(ncfit):
                    model = model + res[k] * float(phi[k, i])
                acc = acc + invvar[i] * float(phi[j, i]) * (y[i] - model)
            cl.append(S.eq(acc, 0) if sym else abs(float(acc)) < tol * (1 + sum(abs(float(v)) for v in y)))
        out["normal_equations_on_free_coefficients"] = S.AND(*cl) if cl else True
        out["fixed_coefficients_keep_prescribed_values"] = S.AND(*[S.eq(res[k], inputans[k]) for k in fixed]) if fixed else True
        cl = []
        for i in range(n):
            model = 0
            for k in range(ncfit):
                model = model + res[k] * float(phi[k, i])
            cl.append(S.eq(yfit[i], model) if sym else abs(float(yfit[i]) - float(model)) < tol * (1 + abs(float(model))))
        out["yfit_is_basis_times_coefficients"] = S.AND(*cl)
        return out

    def samples(self, rng):
        for _ in range(120):
            npts, nc = rng.randint(3, 7), rng.randint(2, 4)
            x = np.sort(np.array([rng.uniform(-1, 1) for _ in range(npts)]))
            ia = np.ones((nc,), dtype=bool)
            inputans = None
            if rng.random() < 0.4:
                ia[rng.randint(0, nc - 1)] = False
                inputans = np.array([rng.uniform(-1, 1) for _ in range(nc)])
            yield dict(x=x, y=np.array([rng.uniform(-2, 2) for _ in range(npts)]),
                       invvar=np.array([rng.choice([0.0, 1.0, 2.0, 0.5]) if rng.random() < 0.9 else 0.0 for _ in range(npts)]),
                       ncoeff=nc, function_name=rng.choice(["legendre", "chebyshev", "poly"]), ia=ia, inputans=inputans)
