"""C13 -- trace sets: bases are the textbook polynomials and fit/evaluate are consistent."""
import itertools
import types
import numpy as np
import z3
from pyvc.harness import FunctionContract, register, JobResult
from pyvc.proxies import SInt, SReal, SBool, sym_real, sym_bool
from pyvc.engine import eng
from pyvc import arrays as A
from pyvc import spec as S

EXPLANATION = ("Legendre, Chebyshev, monomial and split-Chebyshev bases: the real functions run on a symbolic abscissa equal the textbook "
               "recurrences for orders 1..12 (array and scalar form); func_fit: returned coefficients satisfy the weighted normal equations on "
               "the free parameters, fixed ones keep their values, yfit = basis^T . coefficients (bounded shapes, symbolic data and weights).")
UNDECIDED = ["conditioning / exact recovery in floating point", "TraceSet construction (positions / FITS record), xnorm jump handling, xy / traceset2xy and the index grids: bounded numerical stand-in only (B)",
             "np.linalg.solve replaced by its contract A x = b (T-solve)"]


@register("C13")
class Bases:
    name = "bases_textbook"
    prop = "C13"
    target = "pydl.goddard.math:flegendre; pydl.pydlutils.trace:fchebyshev, fchebyshev_split, fpoly"
    level = "C"

    def run_job(self, tier, seed, exclusions):
        import time
        import traceback
        import sympy as sp
        from pyvc import amode
        from pyvc.engine import Engine
        t0 = time.time()
        maxm = 12
        res = JobResult(job=self.name, target=self.target, level="C", prop="C13", obligations=[], failures=[], crashed=None,
                        bound="orders m = 1..%d, one generic (symbolic) abscissa in the array form; the scalar form at 15 sample abscissae" % maxm,
                        paths=0, solver_s=0.0, queries=0, native_runs=0, native_failures=[], vacuity=None,
                        assumptions=["symbolic abscissa as a sympy symbol in a numpy object array: the real function body is executed by CPython/numpy",
                                     "scipy.special.legendre/chebyt coefficient objects are concrete floats: equality coefficient-wise within 1e-10 (not an exact identity)",
                                     "element-wise uniformity over the abscissa array (A3)"])

        def ob(name, ok, note="", witness=None):
            d = dict(name="bases_textbook:" + name, path=0, status="unsat" if ok else "sat", secs=0.0, backend="polyid", size=0, note="" if ok else note)
            if not ok:
                d.update(inputs=witness, model=note, reason="")
            res["obligations"].append(d)

        def witness(nm, m, scalar):
            """a concrete abscissa at which the real function differs from the textbook value (for the replay)"""
            for j in range(41):
                inp = dict(function=nm, m=m, x=-1.0 + j / 20.0, scalar=scalar)
                if not self.native_replay(inp)[0]:
                    return inp
            return None

        def close_poly(e, want, x):
            d = sp.Poly(sp.expand(sp.sympify(e) - want), x)
            return all(abs(complex(c)) < 1e-10 for c in d.all_coeffs())
        try:
            Engine.current = Engine("bases")
            x = sp.Symbol("x", real=True)
            fns = {"flegendre": amode.load("pydl.goddard.math:flegendre").fn, "fchebyshev": amode.load("pydl.pydlutils.trace:fchebyshev").fn,
                   "fpoly": amode.load("pydl.pydlutils.trace:fpoly").fn, "fchebyshev_split": amode.load("pydl.pydlutils.trace:fchebyshev_split").fn}
            P = [sp.Integer(1), x]
            T = [sp.Integer(1), x]
            for k in range(2, maxm + 2):
                P.append(sp.expand(((2 * k - 1) * x * P[k - 1] - (k - 1) * P[k - 2]) / k))
                T.append(sp.expand(2 * x * T[k - 1] - T[k - 2]))
            for m in range(1, maxm + 1):
                for form in ("array",):
                    arg = np.empty((1,), dtype=object)
                    arg[0] = x
                    for nm, want in (("flegendre", P), ("fchebyshev", T), ("fpoly", [x ** k for k in range(maxm + 2)])):
                        out = fns[nm](arg, m)
                        res["paths"] += 1
                        ok = out.shape == (m, 1) and all(close_poly(out[k, 0], want[k], x) for k in range(m))
                        ob("%s[m=%d,%s]" % (nm, m, form), ok, "rows %s" % [str(out[k, 0]) for k in range(min(m, 4))], None if ok else witness(nm, m, False))
                if m >= 2:
                    for sgn, step in (("positive", 1), ("negative", 0)):
                        xs = sp.Symbol("x", **{sgn: True})
                        arg = np.empty((1,), dtype=object)
                        arg[0] = xs
                        out = fns["fchebyshev_split"](arg, m)
                        res["paths"] += 1
                        Ts = [sp.Integer(1), xs]
                        for k in range(2, maxm + 2):
                            Ts.append(sp.expand(2 * xs * Ts[k - 1] - Ts[k - 2]))
                        want = [sp.Integer(step)] + Ts
                        got0 = out[0, 0]
                        got0 = sp.Integer(1) if got0 is True or got0 == sp.true else (sp.Integer(0) if got0 is False or got0 == sp.false else got0)
                        ok = out.shape == (m, 1) and sp.simplify(sp.sympify(got0) - want[0]) == 0 and \
                            all(close_poly(out[k, 0], want[k], xs) for k in range(1, m))
                        ob("fchebyshev_split[m=%d,x %s]" % (m, sgn), ok, "rows %s" % [str(out[k, 0]) for k in range(min(m, 4))], None if ok else witness("fchebyshev_split", m, False))
            # scalar calling form: values at 15 abscissae against the textbook polynomials (bounded, native)
            for m in range(1, maxm + 1):
                for nm, want in (("flegendre", P), ("fchebyshev", T), ("fpoly", [x ** k for k in range(maxm + 2)])):
                    ok = True
                    for j in range(18):
                        xv = -1.0 + j / 7.0 if j < 15 else (0, 1, -1)[j - 15]       # also plain Python integers inside [-1, 1]
                        out = fns[nm](xv, m)
                        ok = ok and out.shape == (m, 1) and all(abs(float(out[k, 0]) - float(want[k].subs(x, xv))) < 1e-9 for k in range(m))
                    ob("%s_scalar_form[m=%d]" % (nm, m), ok, "scalar form differs from the textbook value", None if ok else witness(nm, m, True))
            # argument validation
            for nm, bad in (("flegendre", 0), ("fchebyshev", 0), ("fpoly", 0), ("fchebyshev_split", 1)):
                try:
                    fns[nm](np.array([0.5]), bad)
                    ob("%s_rejects_order_%d" % (nm, bad), False, "no ValueError")
                except ValueError:
                    ob("%s_rejects_order_%d" % (nm, bad), True)
            res["vacuity"] = dict(orders=maxm)
        except Exception:
            res["crashed"] = traceback.format_exc()
        res["wall_s"] = time.time() - t0
        return res

    def native_replay(self, inputs):
        import importlib
        nm, m, xv = inputs["function"], int(inputs["m"]), float(inputs["x"])
        fn = getattr(importlib.import_module("pydl.goddard.math" if nm == "flegendre" else "pydl.pydlutils.trace"), nm)
        out = np.asarray(fn(xv if inputs.get("scalar") else np.array([xv]), m), dtype=float)
        P, T = [1.0, xv], [1.0, xv]
        for k in range(2, m + 1):
            P.append(((2 * k - 1) * xv * P[k - 1] - (k - 1) * P[k - 2]) / k)
            T.append(2 * xv * T[k - 1] - T[k - 2])
        want = {"flegendre": P, "fchebyshev": T, "fpoly": [xv ** k for k in range(m + 1)], "fchebyshev_split": [1.0 if xv >= 0 else 0.0] + T}[nm][:m]
        ok = out.shape == (m, 1) and all(abs(out[k, 0] - want[k]) < 1e-9 for k in range(m))
        return ok, "%s(%r, %d) = %s, textbook %s" % (nm, xv, m, out[:, 0].tolist(), want)


# ---------------------------------------------------------------------------
class _LinalgShim:
    """np.linalg with solve replaced by its contract: x fresh with A x = b (T-solve); the system is recorded for the postcondition"""
    def __getattr__(self, name):
        return getattr(np.linalg, name)

    def solve(self, a, b):
        a = np.asarray(a, dtype=object)
        b = np.asarray(b, dtype=object)
        n = len(b)
        xs = np.empty((n,), dtype=object)
        e = eng()
        e.assumptions_used.add("T-solve: numpy.linalg.solve(A, b) returns x with A x = b")
        for j in range(n):
            xs[j] = sym_real("sol%d" % j)
        for i in range(n):
            acc = 0
            for j in range(n):
                acc = acc + a[i, j] * xs[j]
            e.assume((acc == b[i]).z if hasattr(acc == b[i], "z") else z3.BoolVal(bool(acc == b[i])))
        e.ghost.setdefault("solve_calls", []).append((a, b, xs))
        return xs


class _NpWithSolve:
    def __init__(self, base):
        self._b = base
        self.linalg = _LinalgShim()

    def __getattr__(self, name):
        return getattr(self._b, name)


def _basis_rows(name, xs, m):
    import pydl.pydlutils.trace as tr
    from pydl.goddard.math import flegendre
    f = {"legendre": flegendre, "chebyshev": tr.fchebyshev, "poly": tr.fpoly}[name]
    return f(np.array(xs, dtype=float), m)


@register("C13")
class FuncFitNormal(FunctionContract):
    """func_fit: weighted normal equations on the free coefficients, fixed ones untouched, yfit = basis^T . res"""
    name = "func_fit"
    target = "pydl.pydlutils.trace:func_fit"
    level = "B"
    bound = "3..4 abscissae (concrete, distinct), ncoeff 2..3, legendre/chebyshev/poly, all coefficients free or one fixed; data and weights symbolic reals (weights >= 0)"
    nl_mode = "nra"
    max_paths = 5000
    assumptions = ["A1 floats as reals", "abscissae concrete (the basis values are then concrete floats); data, weights, prescribed coefficients symbolic"]

    def cases(self, tier):
        out = []
        for fn in ("legendre", "chebyshev", "poly"):
            for npts, nc in ((3, 2), (4, 3)) if tier == "quick" else ((3, 2), (4, 2), (4, 3), (5, 3)):
                for fixed in (None, 0, nc - 1):
                    out.append((fn, npts, nc, fixed))
        return out

    def inputs(self):
        fn, npts, nc, fixed = self.case
        xs = np.linspace(-1.0, 1.0, npts)
        y = np.empty((npts,), dtype=object)
        w = np.empty((npts,), dtype=object)
        for i in range(npts):
            y[i] = sym_real("y%d" % i)
            w[i] = sym_real("w%d" % i)
        ia = np.ones((nc,), dtype=bool)
        inputans = None
        if fixed is not None:
            ia[fixed] = False
            inputans = np.empty((nc,), dtype=object)
            for k in range(nc):
                inputans[k] = sym_real("c%d" % k)
        return dict(x=xs, y=y, invvar=w, ncoeff=nc, function_name=fn, ia=ia, inputans=inputans)

    def requires(self, x, y, invvar, ncoeff, function_name, ia, inputans):
        # "fitting problems with enough good points": at least ncoeff points carry positive weight, or none / exactly one does
        cnt = 0
        for w in invvar:
            cnt = cnt + S.ite(w > 0, 1, 0)
        return S.AND(*[w >= 0 for w in invvar], S.OR(cnt >= ncoeff, cnt <= 1))

    def extra_globals(self):
        return {}

    def call(self, fn, x, y, invvar, ncoeff, function_name, ia, inputans):
        g = getattr(fn, "__globals__", None)
        if g is not None and "__pv" in g and not isinstance(g["np"], _NpWithSolve):
            g["np"] = _NpWithSolve(g["np"])
        if S.is_sym(*y):
            xo = np.empty(x.shape, dtype=object)
            for i in range(len(x)):
                xo[i] = float(x[i])
            return fn(xo, y, ncoeff, invvar=invvar, function_name=function_name, ia=ia, inputans=inputans)
        return fn(x, y, ncoeff, invvar=invvar, function_name=function_name, ia=ia,
                  inputans=None if inputans is None else np.asarray(inputans, dtype=float))

    def ensures(self, result, x, y, invvar, ncoeff, function_name, ia, inputans):
        res, yfit = result
        n = len(x)
        sym = S.is_sym(*y)
        good = [bool(invvar[i] > 0) for i in range(n)]
        ngood = sum(good)
        out = {"shapes": len(res) == ncoeff and len(yfit) == n}
        if ngood == 0:
            out["no_good_point_gives_zero"] = all(bool(S.eq(r, 0.0)) for r in res)
            return out
        if ngood == 1:
            i0 = good.index(True)
            out["single_good_point_gives_constant"] = bool(S.eq(res[0], y[i0])) and all(bool(S.eq(v, y[i0])) for v in yfit)
            return out
        ncfit = min(ngood, ncoeff)
        phi = _basis_rows(function_name, x, ncfit)
        free = [k for k in range(ncfit) if ia[k]]
        fixed = [k for k in range(ncfit) if not ia[k]]
        cl = []
        tol = 1e-7
        for j in free:
            acc = 0
            for i in range(n):
                model = 0
                for k in range(ncfit):
                    model = model + res[k] * float(phi[k, i])
                acc = acc + invvar[i] * float(phi[j, i]) * (y[i] - model)
            cl.append(S.eq(acc, 0) if sym else abs(float(acc)) < tol * (1 + sum(abs(float(v)) for v in y)))
        out["normal_equations_on_free_coefficients"] = S.AND(*cl) if cl else True
        out["fixed_coefficients_keep_prescribed_values"] = S.AND(*[S.eq(res[k], inputans[k]) for k in fixed]) if fixed else True
        cl = []
        for i in range(n):
            model = 0
            for k in range(ncfit):
                model = model + res[k] * float(phi[k, i])
            cl.append(S.eq(yfit[i], model) if sym else abs(float(yfit[i]) - float(model)) < tol * (1 + abs(float(model))))
        out["yfit_is_basis_times_coefficients"] = S.AND(*cl)
        return out

    def samples(self, rng):
        for _ in range(120):
            npts, nc = rng.randint(3, 7), rng.randint(2, 4)
            x = np.sort(np.array([rng.uniform(-1, 1) for _ in range(npts)]))
            ia = np.ones((nc,), dtype=bool)
            inputans = None
            if rng.random() < 0.4:
                ia[rng.randint(0, nc - 1)] = False
                inputans = np.array([rng.uniform(-1, 1) for _ in range(nc)])
            yield dict(x=x, y=np.array([rng.uniform(-2, 2) for _ in range(npts)]),
                       invvar=np.array([rng.choice([0.0, 1.0, 2.0, 0.5]) if rng.random() < 0.9 else 0.0 for _ in range(npts)]),
                       ncoeff=nc, function_name=rng.choice(["legendre", "chebyshev", "poly"]), ia=ia, inputans=inputans)


# ---------------------------------------------------------------------------
# TraceSet: fit -> evaluate consistency, default grid, index grids; bounded numerical stand-ins
# ---------------------------------------------------------------------------
from pyvc.numeric import NumericJob as _NumericJob


def _ref_basis(func, xn, ncoeff):
    """textbook polynomials through numpy.polynomial (independent of the package's recurrences)"""
    from numpy.polynomial import legendre, chebyshev
    rows = []
    for k in range(ncoeff):
        c = np.zeros(k + 1)
        c[k] = 1.0
        rows.append(legendre.legval(xn, c) if func == "legendre" else chebyshev.chebval(xn, c) if func == "chebyshev" else xn ** k)
    return np.array(rows)


def _ref_xnorm(x, xmin, xmax, jump):
    x = np.asarray(x, dtype=float)
    if jump is not None:
        lo, hi, val = jump
        x = x + np.clip((x - lo) / (hi - lo), 0.0, 1.0) * val
    return 2.0 * (x - 0.5 * (xmin + xmax)) / (xmax - xmin)


@register("C13")
class TraceSetJob(_NumericJob):
    name = "traceset_fit_evaluate"
    target = "pydl.pydlutils.trace:TraceSet.__init__, TraceSet.xy, TraceSet.xnorm, traceset2xy, xy2traceset; pydl.pydlutils.misc:djs_laxisgen, djs_laxisnum"
    bound = ("1..4 traces of 6..30 points, poly / legendre / chebyshev with 1..5 coefficients, random weights with zeros, with and without the x-jump, "
             "construction from positions and from a FITS record, explicit xmin/xmax or from the data; each default-grid evaluation repeated after the "
             "previously returned arrays were modified in place")
    KINDS = ("evaluating_at_the_fitted_positions_returns_yfit", "coefficients_are_the_weighted_least_squares_solution", "evaluation_equals_textbook_series_in_normalised_x",
             "default_grid_spans_xmin_to_xmax_in_unit_steps", "results_are_fresh_arrays_and_inputs_unchanged", "index_grids_equal_their_definition")
    NQ, NT = 200, 2000

    def _cases(self, rng, n):
        for rep in range(n):
            nt, nx = rng.randint(1, 4), rng.randint(6, 30)
            func = rng.choice(["poly", "legendre", "chebyshev"])
            nc = rng.randint(1, 5)
            x0 = rng.choice([0.0, 0.0, 3.0, -7.0, 100.0])
            xpos = np.array([[x0 + j + (rng.uniform(-0.3, 0.3) if rng.random() < 0.5 else 0.0) for j in range(nx)] for _ in range(nt)])
            co = [[rng.uniform(-2, 2) for _ in range(nc)] for _ in range(nt)]
            ypos = np.array([[sum(c * ((xx - x0) / nx) ** k for k, c in enumerate(co[t])) + rng.gauss(0, 0.01) for xx in xpos[t]] for t in range(nt)])
            iv = np.array([[0.0 if rng.random() < 0.15 else rng.uniform(0.5, 2.0) for _ in range(nx)] for _ in range(nt)])
            jump = None
            if rng.random() < 0.5:
                lo = x0 + rng.uniform(0.2, 0.5) * nx
                if x0 <= 0.0 < x0 + nx - 2 and rng.random() < 0.6:
                    lo = 0.0                        # a jump that starts exactly at position 0.0 is a jump like any other
                jump = (lo, lo + rng.uniform(0.5, 3.0), rng.uniform(-1.5, 1.5))
            yield dict(xpos=xpos, ypos=ypos, iv=iv, func=func, nc=nc, jump=jump, explicit=rng.random() < 0.4, use_iv=rng.random() < 0.7,
                       inp=dict(rep=rep, nTrace=nt, nx=nx, func=func, ncoeff=nc, jump=jump is not None))

    def _check(self, c):
        from astropy.io import fits
        from pydl.pydlutils.trace import TraceSet, traceset2xy, xy2traceset
        from pydl.pydlutils.misc import djs_laxisgen, djs_laxisnum
        xpos, ypos, iv, func, nc, jump = c["xpos"], c["ypos"], c["iv"], c["func"], c["nc"], c["jump"]
        kw = dict(func=func, ncoeff=nc, maxiter=0 if c["inp"]["rep"] % 2 else 10)
        if c["use_iv"]:
            kw["invvar"] = iv
        w = iv if c["use_iv"] else np.ones(iv.shape)
        if c["explicit"]:
            kw.update(xmin=float(np.floor(xpos.min())) - 1.0, xmax=float(np.ceil(xpos.max())) + 2.0)
        if jump is not None:
            kw.update(xjumplo=jump[0], xjumphi=jump[1], xjumpval=jump[2])
        x_in, y_in, iv_in = xpos.copy(), ypos.copy(), iv.copy()
        ts = xy2traceset(xpos, ypos, **kw)
        bad = []
        xmin, xmax = float(ts.xmin), float(ts.xmax)
        if not c["explicit"] and (xmin != x_in.min() or xmax != x_in.max()):
            bad.append(("default_grid_spans_xmin_to_xmax_in_unit_steps", "xmin/xmax %r %r are not the extremes of the positions" % (xmin, xmax)))
        # coefficients: independent weighted least squares per trace
        for t in range(xpos.shape[0]):
            B = _ref_basis(func, _ref_xnorm(x_in[t], xmin, xmax, jump), nc)
            sw = np.sqrt(w[t])
            if (w[t] > 0).sum() < nc + 2 or np.linalg.cond((B * sw).T) > 1e6:
                continue
            sol = np.linalg.lstsq((B * sw).T, y_in[t] * sw, rcond=None)[0]
            if not np.allclose(ts.coeff[t], sol, rtol=1e-6, atol=1e-8):
                bad.append(("coefficients_are_the_weighted_least_squares_solution", "trace %d: %s vs %s" % (t, np.round(ts.coeff[t], 6).tolist(), np.round(sol, 6).tolist())))
                break
        # evaluate again at the fitted positions
        xe, ye = ts.xy(xpos)
        x2, y2 = traceset2xy(ts, xpos)
        if not (np.allclose(ye, ts.yfit, rtol=1e-9, atol=1e-9) and np.array_equal(y2, ye) and np.array_equal(xe, x_in)):
            bad.append(("evaluating_at_the_fitted_positions_returns_yfit", "max |xy(xpos) - yfit| = %g" % np.abs(ye - ts.yfit).max()))
        for ign in (False, True):
            exp = np.array([_ref_basis(func, _ref_xnorm(x_in[t], xmin, xmax, None if ign else jump), nc).T @ ts.coeff[t] for t in range(xpos.shape[0])])
            got = ts.xy(xpos, ignore_jump=ign)[1]
            if not np.allclose(got, exp, rtol=1e-9, atol=1e-9):
                bad.append(("evaluation_equals_textbook_series_in_normalised_x", "ignore_jump=%s: max deviation %g" % (ign, np.abs(got - exp).max())))
        if not (np.array_equal(xpos, x_in) and np.array_equal(ypos, y_in) and np.array_equal(iv, iv_in)):
            bad.append(("results_are_fresh_arrays_and_inputs_unchanged", "xpos / ypos / invvar changed in place"))
        # the same trace set from a FITS record
        cols = [fits.Column(name="FUNC", format="16A", array=np.array([func])), fits.Column(name="XMIN", format="D", array=np.array([xmin])),
                fits.Column(name="XMAX", format="D", array=np.array([xmax])),
                fits.Column(name="COEFF", format="%dD" % ts.coeff.size, dim="(%d,%d)" % (nc, xpos.shape[0]), array=ts.coeff[None, :, :])]
        if jump is not None:
            cols += [fits.Column(name=nm, format="D", array=np.array([v])) for nm, v in zip(("XJUMPLO", "XJUMPHI", "XJUMPVAL"), jump)]
        tf = TraceSet(fits.BinTableHDU.from_columns(cols).data)
        sets = [("positions", ts), ("FITS record", tf)]
        for lab, s in sets:
            nxg = int(xmax - xmin + 1)
            for rnd in range(2):
                gx, gy = s.xy()
                ok = gx.shape == (xpos.shape[0], nxg) and all(np.array_equal(gx[t], xmin + np.arange(nxg)) for t in range(gx.shape[0]))
                if not ok:
                    bad.append(("default_grid_spans_xmin_to_xmax_in_unit_steps", "%s, call %d: shape %s first row %s..." % (lab, rnd + 1, gx.shape, np.asarray(gx)[0][:4].tolist())))
                    break
                exp = np.array([_ref_basis(func, _ref_xnorm(gx[t], xmin, xmax, jump), nc).T @ s.coeff[t] for t in range(gx.shape[0])])
                if not np.allclose(gy, exp, rtol=1e-9, atol=1e-9):
                    bad.append(("evaluation_equals_textbook_series_in_normalised_x", "%s default grid: max deviation %g" % (lab, np.abs(gy - exp).max())))
                # a caller modifying what it was given must not influence later calls
                gx += 1.0
                gy[:] = 0.0
                g = djs_laxisgen([s.nTrace, s.nx], iaxis=1)
                g += 5
        # index grids against their definition, twice, modifying the first result
        dims = [xpos.shape[0], min(xpos.shape[1], 7)] + ([3] if c["inp"]["rep"] % 3 == 0 else [])
        for ax in range(len(dims)):
            for fn in (djs_laxisgen, djs_laxisnum):
                for rnd in range(2):
                    g = fn(dims, iaxis=ax)
                    expg = np.zeros(dims, dtype=int)
                    for idx in np.ndindex(*dims):
                        expg[idx] = idx[ax]
                    if g.shape != tuple(dims) or not np.array_equal(g, expg):
                        bad.append(("index_grids_equal_their_definition", "%s(%s, iaxis=%d), call %d" % (fn.__name__, dims, ax, rnd + 1)))
                    g += 3
        # the bases hand out fresh arrays: a caller scaling a returned basis in place (func_fit does so with `inputfunc`) must not change later results
        from pydl.goddard.math import flegendre
        from pydl.pydlutils.trace import fchebyshev, fpoly, func_fit
        xx = np.linspace(-1.0, 1.0, 7)
        for nm, f in (("legendre", flegendre), ("chebyshev", fchebyshev), ("poly", fpoly)):
            for form in ("array", "fit"):
                if form == "array":
                    a = f(xx, 4)
                    a *= 2.5
                    a[0] = 7.0
                else:
                    func_fit(xx, 1.0 + xx ** 2, 4, function_name=nm, inputfunc=np.linspace(0.5, 1.5, 7))
                b = np.asarray(f(xx.copy(), 4), dtype=float)
                if b.shape != (4, 7) or not np.allclose(b, _ref_basis(nm, xx, 4), rtol=1e-12, atol=1e-12):
                    bad.append(("results_are_fresh_arrays_and_inputs_unchanged", "%s basis after an earlier result was modified in place (%s): max deviation %g" %
                                (nm, form, np.abs(b - _ref_basis(nm, xx, 4)).max() if b.shape == (4, 7) else -1)))
        g1 = djs_laxisgen([5])
        g1 += 1
        if not np.array_equal(djs_laxisgen([5]), np.arange(5)):
            bad.append(("index_grids_equal_their_definition", "djs_laxisgen([5]) after modifying an earlier result"))
        return bad
