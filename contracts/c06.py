"""C06 -- SDSS objID / specObjID packing is a bijection with the documented bit layout.

Specs are transcribed from the documented bit tables (docstrings of sdss_objid / sdss_specobjid),
not from the shift-and-or code.  numpy int64/uint64 are modelled as 64-bit vectors (exact wrap-around).
"""
import re as _re
import numpy as np
import z3
from pyvc.harness import FunctionContract, LemmaJob, register
from pyvc.proxies import SInt, SBV, SBool, SPyInt, sym_int, sym_bool, sym_pyint, FMT_TOKENS
from pyvc.engine import Unsupported, eng
from pyvc import arrays as A
from pyvc import spec as S
from pyvc.npshim import SRec

EXPLANATION = ("Layout, range rejection and unpacking are proved for arrays of every length (element-generic, "
               "BV64) and for the scalar convention; pack/unpack round trips are lemmas over the two contracts.")
UNDECIDED = ["decimal-string IDs: numpy's string->integer conversion itself is trusted (T-astype-str)",
             "integer arrays of dtypes other than int64 in the array convention (documented: 'declare all inputs as 64-bit integers')"]

OBJ_FIELDS = [  # name, low bit, width, min, max   (docstring table of sdss_objid)
    ("skyversion", 59, 4, 0, 15), ("rerun", 48, 11, 0, 2 ** 11 - 1), ("run", 32, 16, 0, 2 ** 16 - 1),
    ("camcol", 29, 3, 1, 6), ("firstfield", 28, 1, 0, 1), ("field", 16, 12, 0, 2 ** 12 - 1), ("objnum", 0, 16, 0, 2 ** 16 - 1)]
SPEC_FIELDS = [  # docstring table of sdss_specobjid (mjd stored minus 50000)
    ("plate", 50, 14, 0, 2 ** 14 - 1), ("fiber", 38, 12, 0, 2 ** 12 - 1), ("mjd50", 24, 14, 0, 2 ** 14 - 1),
    ("run2d", 10, 14, 0, 2 ** 14 - 1), ("line", 0, 10, 0, 2 ** 10 - 1)]


def bits(v, lo, width):
    """bits lo..lo+width-1 of a 64-bit ID as a non-negative integer (dual)"""
    if isinstance(v, SBV):
        return SBV(z3.ZeroExt(64 - width, z3.Extract(lo + width - 1, lo, v.z)), 64, v.signed)
    return (int(v) >> lo) & ((1 << width) - 1)


def ival(v):
    """integer value of a numpy integer / Python int (dual)"""
    if isinstance(v, SBV):
        return v.as_int()
    if isinstance(v, (SInt, int)):
        return v
    return int(v)


def same(b, v):
    """field comparison: bit-vector domain when both sides are 64-bit vectors, integer domain otherwise"""
    if isinstance(b, SBV) and isinstance(v, SBV) and v.bits == 64:
        return SBool(b.z == v.z)
    if isinstance(b, SBV) and isinstance(v, int):
        return SBool(b.z == z3.BitVecVal(v, 64)) if 0 <= v < 2 ** 63 else SBool(False)
    return ival(b) == ival(v)


def layout_ok(idv, fields, values, top_zero=None):
    """every field sits in its own bit range; the ranges tile the word, so no other bit is set"""
    cl = [same(bits(idv, lo, w), values[name]) for (name, lo, w, mn, mx) in fields]
    if top_zero is not None:
        cl.append(same(bits(idv, top_zero, 1), 0))
    return S.AND(*cl)


def in_range(fields, values):
    return S.AND(*[S.AND(values[name] >= mn, values[name] <= mx) for (name, lo, w, mn, mx) in fields])


def _sizes_equal(arrs):
    n = S.size(arrs[0])
    return S.AND(*[S.size(a) == n for a in arrs[1:]])


I64 = (-(2 ** 63), 2 ** 63 - 1)


# ---------------------------------------------------------------------------
# sdss_objid
# ---------------------------------------------------------------------------
@register("C06")
class ObjidArrays(FunctionContract):
    name = "sdss_objid_arrays"
    target = "pydl.pydlutils.sdss:sdss_objid"
    level = "P"
    int_mode = "bv"
    force_symbolic = True
    expect_loops = 0
    assumptions = ["array convention verified for int64 arrays (as documented); any length"]
    names = ["run", "camcol", "field", "objnum", "rerun", "skyversion", "firstfield"]

    def inputs(self):
        return {nm: A.SArr.symbolic(A.INT64, sym_int("n_" + nm).z, nm) for nm in self.names}

    def requires(self, **a):
        return S.AND(*[S.size(a[nm]) >= 0 for nm in self.names])

    def call(self, fn, **a):
        return fn(a["run"], a["camcol"], a["field"], a["objnum"], rerun=a["rerun"], skyversion=a["skyversion"],
                  firstfield=a["firstfield"])

    def _vals(self, a, i):
        return {nm: S.el(a[nm], i) for nm in self.names}

    def ensures(self, result, **a):
        n = S.size(a["run"])
        return {
            "lengths_agree": _sizes_equal([a[nm] for nm in self.names]),
            "length": S.size(result) == n,
            "all_in_range": S.forall(0, n, lambda i: in_range(OBJ_FIELDS, self._vals(a, i))),
            "layout": S.forall(0, n, lambda i: layout_ok(S.el(result, i), OBJ_FIELDS, self._vals(a, i), top_zero=63)),
        }

    def raises(self, exc, **a):
        if not isinstance(exc, ValueError):
            return None
        n = S.size(a["run"])
        eqs = _sizes_equal([a[nm] for nm in self.names])
        if not S.is_sym(eqs) and not eqs:
            return {"ValueError_only_for_bad_input": True}
        bad = S.OR(S.NOT(eqs), S.exists(0, n, lambda i: S.NOT(in_range(OBJ_FIELDS, self._vals(a, i)))))
        return {"ValueError_only_for_bad_input": bad}

    def samples(self, rng):
        for _ in range(150):
            n = rng.randint(1, 3)
            d = {}
            for (nm, lo, w, mn, mx) in OBJ_FIELDS:
                pool = [mn, mx, mn - 1, mx + 1, rng.randint(mn, mx), rng.randint(mn, mx), rng.randint(mn, mx)]
                d[nm] = np.array([rng.choice(pool) if rng.random() < 0.25 else rng.randint(mn, mx) for _ in range(n)], dtype=np.int64)
            if rng.random() < 0.15:
                k = rng.choice(self.names)
                d[k] = np.append(d[k], d[k][0])
            yield d


@register("C06")
class ObjidScalars(FunctionContract):
    name = "sdss_objid_scalars"
    target = "pydl.pydlutils.sdss:sdss_objid"
    level = "C"
    int_mode = "bv"
    force_symbolic = True
    expect_loops = 0
    assumptions = ["scalar arguments are Python ints within the int64 range (machine-integer range as precondition)"]
    names = ObjidArrays.names

    def inputs(self):
        return {nm: sym_pyint(nm) for nm in self.names}

    def requires(self, **a):
        return S.AND(*[S.AND(a[nm] >= I64[0], a[nm] <= I64[1]) for nm in self.names])

    call = ObjidArrays.call

    def ensures(self, result, **a):
        return {"length": S.size(result) == 1,
                "in_range": in_range(OBJ_FIELDS, a),
                "layout": layout_ok(S.el(result, 0), OBJ_FIELDS, a, top_zero=63)}

    def raises(self, exc, **a):
        if not isinstance(exc, ValueError):
            return None
        return {"ValueError_only_for_bad_input": S.NOT(in_range(OBJ_FIELDS, a))}

    def samples(self, rng):
        for _ in range(200):
            d = {}
            for (nm, lo, w, mn, mx) in OBJ_FIELDS:
                d[nm] = rng.choice([mn, mx, mn - 1, mx + 1, -2, 2 ** 40]) if rng.random() < 0.2 else rng.randint(mn, mx)
            if rng.random() < 0.5:
                d["rerun"] = 301
            yield d


# ---------------------------------------------------------------------------
# sdss_specobjid
# ---------------------------------------------------------------------------
def _spec_values(plate, fiber, mjd, run2d, line):
    return dict(plate=plate, fiber=fiber, mjd50=mjd - 50000, run2d=run2d, line=line)


@register("C06")
class SpecobjidArrays(FunctionContract):
    name = "sdss_specobjid_arrays"
    target = "pydl.pydlutils.sdss:sdss_specobjid"
    level = "P"
    int_mode = "bv"
    force_symbolic = True
    expect_loops = 0
    assumptions = ["array convention verified for int64 arrays; MJD is a true MJD (> 50000) as the property states"]

    def cases(self, tier):
        return ["none", "line", "index", "both"]

    def inputs(self):
        d = {nm: A.SArr.symbolic(A.INT64, sym_int("n_" + nm).z, nm) for nm in ("plate", "fiber", "mjd", "run2d")}
        d["line"] = A.SArr.symbolic(A.INT64, sym_int("n_line").z, "line") if self.case in ("line", "both") else None
        d["index"] = A.SArr.symbolic(A.INT64, sym_int("n_index").z, "index") if self.case in ("index", "both") else None
        return d

    def requires(self, **a):
        return S.AND(*[S.size(v) >= 0 for v in a.values() if v is not None])

    def call(self, fn, plate, fiber, mjd, run2d, line, index):
        return fn(plate, fiber, mjd, run2d, line=line, index=index)

    def _arrs(self, a):
        return [v for v in (a["plate"], a["fiber"], a["mjd"], a["run2d"], a["line"], a["index"]) if v is not None]

    def _vals(self, a, i):
        low = S.el(a["line"], i) if a["line"] is not None else (S.el(a["index"], i) if a["index"] is not None else 0)
        return _spec_values(S.el(a["plate"], i), S.el(a["fiber"], i), S.el(a["mjd"], i), S.el(a["run2d"], i), low)

    def ensures(self, result, **a):
        n = S.size(a["plate"])
        return {
            "not_both_line_and_index": not (a["line"] is not None and a["index"] is not None),
            "lengths_agree": _sizes_equal(self._arrs(a)),
            "length": S.size(result) == n,
            "all_in_range": S.forall(0, n, lambda i: in_range(SPEC_FIELDS, self._vals(a, i))),
            "layout": S.forall(0, n, lambda i: layout_ok(S.el(result, i), SPEC_FIELDS, self._vals(a, i))),
        }

    def raises(self, exc, **a):
        if not isinstance(exc, ValueError):
            return None
        if a["line"] is not None and a["index"] is not None:
            return {"line_and_index_rejected": True}
        n = S.size(a["plate"])
        eqs = _sizes_equal(self._arrs(a))
        if not S.is_sym(eqs) and not eqs:
            return {"ValueError_only_for_bad_input": True}
        bad = S.OR(S.NOT(eqs), S.exists(0, n, lambda i: S.NOT(in_range(SPEC_FIELDS, self._vals(a, i)))))
        return {"ValueError_only_for_bad_input": bad}

    def samples(self, rng):
        for _ in range(150):
            n = rng.randint(1, 3)

            def col(mn, mx, off=0):
                return np.array([(rng.choice([mn, mx, mn - 1, mx + 1]) if rng.random() < 0.2 else rng.randint(mn, mx)) + off
                                 for _ in range(n)], dtype=np.int64)
            d = dict(plate=col(0, 2 ** 14 - 1), fiber=col(0, 2 ** 12 - 1), mjd=col(0, 2 ** 14 - 1, 50000), run2d=col(0, 2 ** 14 - 1),
                     line=None, index=None)
            r = rng.random()
            if r < 0.3:
                d["line"] = col(0, 1023)
            elif r < 0.6:
                d["index"] = col(0, 1023)
            elif r < 0.65:
                d["line"] = col(0, 1023)
                d["index"] = col(0, 1023)
            if rng.random() < 0.1:
                d["fiber"] = np.append(d["fiber"], 1)
            yield d


class SDecStr:
    """the decimal text of a (symbolic) non-negative integer"""
    _virtual_types = (str,)
    _pyvc_symbolic = True

    def __init__(self, v):
        self.v = v

    def s_int(self):
        return self.v

    def concretize(self, model):
        from pyvc.harness import concretize
        return str(concretize(self.v, model))


class SVStr:
    """the text 'v{N}_{M}_{P}' for (symbolic) non-negative integers N, M, P"""
    _virtual_types = (str,)
    _pyvc_symbolic = True

    def __init__(self, N, M, P):
        self.N, self.M, self.P = N, M, P

    def s_int(self):
        raise ValueError("invalid literal for int() with base 10: 'vN_M_P'")

    def concretize(self, model):
        from pyvc.harness import concretize
        return "v%d_%d_%d" % (concretize(self.N, model), concretize(self.M, model), concretize(self.P, model))


class _Match:
    def __init__(self, g):
        self.g = g

    def groups(self):
        return self.g


class ReShim:
    """T-regex: re.match(r'v(\\d+)_(\\d+)_(\\d+)', 'v{N}_{M}_{P}') yields the three decimal texts; int(text(k)) == k"""
    PATTERN = r'v(\d+)_(\d+)_(\d+)'

    def __getattr__(self, name):
        return getattr(_re, name)

    def match(self, pattern, s, *a):
        if isinstance(s, SVStr):
            if pattern != self.PATTERN:
                raise Unsupported("regex %r is not the modelled run2d pattern" % pattern)
            eng().assumptions_used.add("T-regex-run2d: re.match(r'v(\\d+)_(\\d+)_(\\d+)') on 'vN_M_P' yields the decimal texts of N, M, P; int(str(k)) == k")
            return _Match((SDecStr(s.N), SDecStr(s.M), SDecStr(s.P)))
        if isinstance(s, SDecStr):
            return None
        return _re.match(pattern, s, *a)


def _run2d_value(run2d):
    """documented meaning of the run2d argument: integer, decimal text, or 'vN_M_P' -> (N-5)*10000 + M*100 + P"""
    if isinstance(run2d, SVStr):
        return (run2d.N - 5) * 10000 + run2d.M * 100 + run2d.P
    if isinstance(run2d, SDecStr):
        return run2d.v
    if isinstance(run2d, str):
        m = _re.fullmatch(r'v(\d+)_(\d+)_(\d+)', run2d)
        if m:
            N, M, P = (int(g) for g in m.groups())
            return (N - 5) * 10000 + M * 100 + P
        return int(run2d)
    return run2d


def _run2d_string_ok(run2d):
    """documented restriction of the string form: 5 <= N <= 6, 0 <= M <= 99, 0 <= P <= 99"""
    if isinstance(run2d, SVStr):
        return S.AND(run2d.N >= 5, run2d.N <= 6, run2d.M >= 0, run2d.M <= 99, run2d.P >= 0, run2d.P <= 99)
    if isinstance(run2d, str):
        m = _re.fullmatch(r'v(\d+)_(\d+)_(\d+)', run2d)
        if m:
            N, M, P = (int(g) for g in m.groups())
            return 5 <= N <= 6 and 0 <= M <= 99 and 0 <= P <= 99
    return True


@register("C06")
class SpecobjidScalars(FunctionContract):
    name = "sdss_specobjid_scalars"
    target = "pydl.pydlutils.sdss:sdss_specobjid"
    level = "C"
    int_mode = "bv"
    force_symbolic = True
    expect_loops = 0
    assumptions = ["scalar arguments are Python ints within the int64 range; run2d strings are of the documented forms "
                   "(decimal text or 'vN_M_P'); malformed strings are covered by the native cross-check only"]

    def cases(self, tier):
        return [(r, l) for r in ("int", "dec", "vstr") for l in ("none", "line", "index", "both")]

    def extra_globals(self):
        return {"re": ReShim()}

    def inputs(self):
        r, l = self.case
        d = dict(plate=sym_pyint("plate"), fiber=sym_pyint("fiber"), mjd=sym_pyint("mjd"))
        if r == "int":
            d["run2d"] = sym_pyint("run2d")
        elif r == "dec":
            d["run2d"] = SDecStr(sym_pyint("run2d"))
        else:
            d["run2d"] = SVStr(sym_pyint("N"), sym_pyint("M"), sym_pyint("P"))
        d["line"] = sym_pyint("line") if l in ("line", "both") else None
        d["index"] = sym_pyint("index") if l in ("index", "both") else None
        return d

    def requires(self, plate, fiber, mjd, run2d, line, index):
        cl = [S.AND(v >= I64[0] + 50000, v <= I64[1]) for v in (plate, fiber, mjd, line, index) if v is not None]
        if isinstance(run2d, SVStr):
            cl += [S.AND(v >= 0, v <= 10 ** 9) for v in (run2d.N, run2d.M, run2d.P)]
        elif isinstance(run2d, SDecStr):
            cl.append(S.AND(run2d.v >= 0, run2d.v <= I64[1]))
        elif isinstance(run2d, str):
            cl.append(bool(_re.fullmatch(r'v(\d+)_(\d+)_(\d+)|\d+', run2d)))
        else:
            cl.append(S.AND(run2d >= I64[0], run2d <= I64[1]))
        return S.AND(*cl)

    def call(self, fn, plate, fiber, mjd, run2d, line, index):
        return fn(plate, fiber, mjd, run2d, line=line, index=index)

    def _vals(self, plate, fiber, mjd, run2d, line, index):
        low = line if line is not None else (index if index is not None else 0)
        return _spec_values(plate, fiber, mjd, _run2d_value(run2d), low)

    def ensures(self, result, **a):
        v = self._vals(**a)
        return {"not_both_line_and_index": not (a["line"] is not None and a["index"] is not None),
                "length": S.size(result) == 1,
                "in_range": in_range(SPEC_FIELDS, v),
                "run2d_string_in_documented_range": _run2d_string_ok(a["run2d"]),
                "layout": layout_ok(S.el(result, 0), SPEC_FIELDS, v)}

    def raises(self, exc, **a):
        if not isinstance(exc, ValueError):
            return None
        if a["line"] is not None and a["index"] is not None:
            return {"line_and_index_rejected": True}
        return {"ValueError_only_for_bad_input": S.OR(S.NOT(in_range(SPEC_FIELDS, self._vals(**a))), S.NOT(_run2d_string_ok(a["run2d"])))}

    def samples(self, rng):
        for _ in range(300):
            def pick(mn, mx, off=0):
                return (rng.choice([mn, mx, mn - 1, mx + 1]) if rng.random() < 0.15 else rng.randint(mn, mx)) + off
            d = dict(plate=pick(0, 2 ** 14 - 1), fiber=pick(0, 2 ** 12 - 1), mjd=pick(0, 2 ** 14 - 1, 50000), line=None, index=None)
            r = rng.random()
            if r < 0.3:
                d["run2d"] = pick(0, 2 ** 14 - 1)
            elif r < 0.5:
                d["run2d"] = str(rng.randint(0, 2 ** 14 + 5))
            else:
                d["run2d"] = "v%d_%d_%d" % (rng.choice([4, 5, 5, 5, 6, 6, 7]), rng.choice([0, 7, 63, 99, 100]), rng.choice([0, 1, 83, 84, 99, 100]))
            r = rng.random()
            if r < 0.25:
                d["line"] = pick(0, 1023)
            elif r < 0.5:
                d["index"] = pick(0, 1023)
            elif r < 0.55:
                d["line"], d["index"] = 1, 2
            yield d


# ---------------------------------------------------------------------------
# unwrap_objid / unwrap_specobjid
# ---------------------------------------------------------------------------
class SStrIds:
    """an array of decimal-string IDs: T-astype-str: .astype(int dtype) parses each text to the integer it denotes"""
    _pyvc_symbolic = True

    def __init__(self, values, np_type):
        self.values = values           # SArr of the denoted integers (BV64)
        self._t = np_type

    @property
    def dtype(self):
        t = self._t

        class D:
            type = t
        return D

    @property
    def shape(self):
        return self.values.shape

    def astype(self, dt):
        eng().assumptions_used.add("T-astype-str: numpy converts a decimal string to the integer it denotes")
        return self.values.astype(dt)

    def concretize(self, model):
        from pyvc.harness import concretize
        return np.array([str(int(v)) for v in concretize(self.values, model)])


def _col(result, name, i):
    if isinstance(result, SRec):
        return S.el(result[name], i)
    return int(result[name][i])


@register("C06")
class UnwrapObjid(FunctionContract):
    name = "unwrap_objid"
    target = "pydl.photoop.photoobj:unwrap_objid"
    level = "P"
    int_mode = "bv"
    force_symbolic = True
    expect_loops = 0
    assumptions = ["input is an int64 array (any length) or an array of decimal strings (T-astype-str)"]
    COLS = [("skyversion", "skyversion"), ("rerun", "rerun"), ("run", "run"), ("camcol", "camcol"), ("firstfield", "firstfield"),
            ("frame", "field"), ("id", "objnum")]

    def cases(self, tier):
        return ["int64", "str", "bytes"]

    def inputs(self):
        ids = A.SArr.symbolic(A.INT64, sym_int("n").z, "objid")
        return dict(objid=ids if self.case == "int64" else SStrIds(ids, np.str_ if self.case == "str" else np.bytes_))

    def requires(self, objid):
        return True

    def call(self, fn, objid):
        return fn(objid)

    def ensures(self, result, objid):
        ids = objid.values if isinstance(objid, SStrIds) else objid
        if not isinstance(ids, A.SArr) and ids.dtype.kind in "US":
            ids = ids.astype(np.int64)
        n = S.size(ids)
        spec = {nm: (lo, w) for (nm, lo, w, mn, mx) in OBJ_FIELDS}
        out = {}
        for col, field in self.COLS:
            lo, w = spec[field]
            out["column_" + col] = S.forall(0, n, lambda i, col=col, lo=lo, w=w: ival(_col(result, col, i)) == ival(bits(S.el(ids, i), lo, w)))
        return out

    def samples(self, rng):
        for _ in range(60):
            n = rng.randint(1, 3)
            ids = np.array([rng.getrandbits(63) for _ in range(n)], dtype=np.int64)
            yield dict(objid=ids)
            yield dict(objid=np.array([str(int(v)) for v in ids]))
            yield dict(objid=np.array([str(int(v)).encode() for v in ids]))       # byte strings (dtype 'S'), as read from FITS tables


def _fmt_pieces(s):
    """split a formatted string into literal text and symbolic numbers: 'v\\x000\\x00_...' -> ['v', tok, '_', ...]"""
    parts = _re.split("(\x00\\d+\x00)", s)
    return [FMT_TOKENS[p][0] if p in FMT_TOKENS else p for p in parts if p != ""]


@register("C06")
class UnwrapSpecobjid(FunctionContract):
    name = "unwrap_specobjid"
    target = "pydl.pydlutils.sdss:unwrap_specobjid"
    level = "C"
    bound = "array length 1 and 2 with symbolic elements (the body is element-wise; the vN_M_P rebuild iterates natively)"
    int_mode = "bv"
    force_symbolic = True
    expect_loops = 0
    assumptions = ["input is a uint64 array or an array of decimal strings (T-astype-str)",
                   "T-format: '{:d}'.format(k) is the decimal text of k",
                   "element-generic: verified for lengths 1 and 2, generalisation rests on numpy ufunc uniformity (A3)"]

    def cases(self, tier):
        return [(t, n, ri, li) for t in ("uint64", "str", "bytes") for n in (1, 2) for ri in (False, True) for li in (False, True)]

    def inputs(self):
        t, n, ri, li = self.case
        ids = A.SArr.symbolic(A.UINT64, n, "specobjid")
        return dict(specObjID=ids if t == "uint64" else SStrIds(ids, np.str_ if t == "str" else np.bytes_), run2d_integer=ri, specLineIndex=li)

    def call(self, fn, specObjID, run2d_integer, specLineIndex):
        return fn(specObjID, run2d_integer=run2d_integer, specLineIndex=specLineIndex)

    def ensures(self, result, specObjID, run2d_integer, specLineIndex):
        ids = specObjID.values if isinstance(specObjID, SStrIds) else specObjID
        if not isinstance(ids, A.SArr) and ids.dtype.kind in "US":
            ids = ids.astype(np.uint64)
        n = len(ids) if not isinstance(ids, A.SArr) else int(S.size(ids))
        spec = {nm: (lo, w) for (nm, lo, w, mn, mx) in SPEC_FIELDS}
        out = {}
        lname = "index" if specLineIndex else "line"
        for i in range(n):
            idv = S.el(ids, i)
            out["plate[%d]" % i] = ival(_col(result, "plate", i)) == ival(bits(idv, *spec["plate"]))
            out["fiber[%d]" % i] = ival(_col(result, "fiber", i)) == ival(bits(idv, *spec["fiber"]))
            out["mjd_is_true_mjd[%d]" % i] = ival(_col(result, "mjd", i)) == ival(bits(idv, *spec["mjd50"])) + 50000
            out["%s[%d]" % (lname, i)] = ival(_col(result, lname, i)) == ival(bits(idv, *spec["line"]))
            r = ival(bits(idv, *spec["run2d"]))
            if run2d_integer:
                out["run2d_integer[%d]" % i] = ival(_col(result, "run2d", i)) == r
            else:
                # the text must be 'vN_M_P' with (N-5)*10000 + M*100 + P == run2d bits and N, M, P in the documented ranges
                if isinstance(result, SRec):
                    kind, width, strings = result["run2d"]
                    pieces = _fmt_pieces(strings[i])
                    ok_shape = (len(pieces) == 6 and pieces[0] == "v" and pieces[2] == "_" and pieces[4] == "_")
                    out["run2d_text_shape[%d]" % i] = ok_shape
                    if ok_shape:
                        N, M, P = pieces[1], pieces[3], pieces[5]
                        out["run2d_text_decodes_to_bits[%d]" % i] = S.AND((N - 5) * 10000 + M * 100 + P == r,
                                                                         N >= 5, N <= 6, M >= 0, M <= 99, P >= 0, P <= 99)
                else:
                    m = _re.fullmatch(r'v(\d+)_(\d+)_(\d+)', str(result["run2d"][i]))
                    out["run2d_text_shape[%d]" % i] = m is not None
                    if m:
                        N, M, P = (int(g) for g in m.groups())
                        out["run2d_text_decodes_to_bits[%d]" % i] = ((N - 5) * 10000 + M * 100 + P == r and 5 <= N <= 6 and M <= 99 and P <= 99)
        return out

    def samples(self, rng):
        for _ in range(80):
            n = rng.randint(1, 3)
            ids = np.array([rng.getrandbits(64) for _ in range(n)], dtype=np.uint64)
            for ri in (False, True):
                yield dict(specObjID=ids, run2d_integer=ri, specLineIndex=rng.random() < 0.5)
            yield dict(specObjID=np.array([str(int(v)) for v in ids]), run2d_integer=False, specLineIndex=False)
            yield dict(specObjID=np.array([str(int(v)).encode() for v in ids]), run2d_integer=False, specLineIndex=False)


# ---------------------------------------------------------------------------
# round trips: lemmas over the contracts
# ---------------------------------------------------------------------------
@register("C06")
class RoundTrips(LemmaJob):
    name = "roundtrip_lemmas"
    assumptions = ["lemmas use only the postconditions of the pack and unwrap contracts (modular: callee contracts, not bodies)"]

    def lemmas(self):
        def objid_unwrap_of_pack():
            # any 64-bit word satisfying the pack postcondition for in-range fields unwraps (by the unwrap postcondition) to those fields
            idv = SBV(z3.BitVec("id", 64), 64, True)
            vals = {nm: SBV(z3.BitVec(nm, 64), 64, True) for (nm, lo, w, mn, mx) in OBJ_FIELDS}
            pre = S.AND(in_range(OBJ_FIELDS, vals), layout_ok(idv, OBJ_FIELDS, vals, top_zero=63))
            post = S.AND(*[same(bits(idv, lo, w), vals[nm]) for (nm, lo, w, mn, mx) in OBJ_FIELDS])
            # and the unwrapped value fits the i4 column it is stored in
            fits = S.AND(*[ival(bits(idv, lo, w)) <= 2 ** 31 - 1 for (nm, lo, w, mn, mx) in OBJ_FIELDS])
            return S.implies(pre, S.AND(post, fits))

        def objid_pack_injective():
            a = {nm: SBV(z3.BitVec(nm + "_a", 64), 64, True) for (nm, lo, w, mn, mx) in OBJ_FIELDS}
            b = {nm: SBV(z3.BitVec(nm + "_b", 64), 64, True) for (nm, lo, w, mn, mx) in OBJ_FIELDS}
            idv = SBV(z3.BitVec("id", 64), 64, True)
            pre = S.AND(layout_ok(idv, OBJ_FIELDS, a, 63), layout_ok(idv, OBJ_FIELDS, b, 63))
            return S.implies(pre, S.AND(*[a[nm] == b[nm] for nm in a]))

        def objid_layout_determines_word():
            a = {nm: SBV(z3.BitVec(nm, 64), 64, True) for (nm, lo, w, mn, mx) in OBJ_FIELDS}
            x = SBV(z3.BitVec("x", 64), 64, True)
            y = SBV(z3.BitVec("y", 64), 64, True)
            return S.implies(S.AND(layout_ok(x, OBJ_FIELDS, a, 63), layout_ok(y, OBJ_FIELDS, a, 63)), x == y)

        def spec_unwrap_of_pack():
            idv = SBV(z3.BitVec("id", 64), 64, False)
            vals = {nm: SBV(z3.BitVec(nm, 64), 64, False) for (nm, lo, w, mn, mx) in SPEC_FIELDS}
            pre = S.AND(in_range(SPEC_FIELDS, vals), layout_ok(idv, SPEC_FIELDS, vals))
            post = S.AND(*[same(bits(idv, lo, w), vals[nm]) for (nm, lo, w, mn, mx) in SPEC_FIELDS])
            return S.implies(pre, post)

        def spec_layout_determines_word():
            a = {nm: SBV(z3.BitVec(nm, 64), 64, False) for (nm, lo, w, mn, mx) in SPEC_FIELDS}
            x = SBV(z3.BitVec("x", 64), 64, False)
            y = SBV(z3.BitVec("y", 64), 64, False)
            return S.implies(S.AND(layout_ok(x, SPEC_FIELDS, a), layout_ok(y, SPEC_FIELDS, a)), x == y)

        def run2d_text_roundtrip():
            # unwrap builds N,M,P with (N-5)*10000+M*100+P == r (its postcondition); packing that text (documented
            # meaning of the string form) gives r back; conversely in-range N,M,P are recovered from r
            r, N, M, P = (SInt(z3.Int(k)) for k in ("r", "N", "M", "P"))
            fwd = S.implies(S.AND(r >= 0, r < 2 ** 14, N == r // 10000 + 5, M == (r % 10000) // 100, P == r % 100),
                            S.AND((N - 5) * 10000 + M * 100 + P == r, N >= 5, N <= 6, M >= 0, M <= 99, P >= 0, P <= 99))
            back = S.implies(S.AND(N >= 5, N <= 6, M >= 0, M <= 99, P >= 0, P <= 99, r == (N - 5) * 10000 + M * 100 + P),
                             S.AND(r // 10000 + 5 == N, (r % 10000) // 100 == M, r % 100 == P))
            return S.AND(fwd, back)

        return dict(objid_unwrap_of_pack=objid_unwrap_of_pack, objid_pack_injective=objid_pack_injective,
                    objid_layout_determines_word=objid_layout_determines_word, specobjid_unwrap_of_pack=spec_unwrap_of_pack,
                    specobjid_layout_determines_word=spec_layout_determines_word, run2d_text_roundtrip=run2d_text_roundtrip)
