"""C19 -- wavelength, photometric-system and band-flux conversions are self-consistent."""
import numpy as np
import z3
from pyvc.harness import FunctionContract, register, JobResult
from pyvc.proxies import SInt, SReal, SBool, sym_int, sym_real, sym_bool
from pyvc import arrays as A
from pyvc import spec as S
from pyvc import amode

EXPLANATION = ("airtovac/vactoair on the real functions over reals: identity below 2000 A, vacuum > air above, both round trips within 1e-6 A "
               "on [2000 A, 30 um], array path == scalar path element-wise for arrays of every length, input not modified.")
UNDECIDED = ["floating-point rounding of the Ciddor formula (A1: floats as reals)", "Quantity input/unit conversion: astropy units trusted (A5)",
             "airtovac(vactoair(v)) == v to 1e-6 A: decided for v in [2010 A, 2 um]; for [2000, 2010] A and (2 um, 30 um] the nested rational "
             "inequality is not decided by z3 (nlsat) or cvc5 within the budget (the other direction is decided on the whole range)",
             "filter_thru (trace-set evaluation + interpolation of the real filter curves): linearity, constant spectrum, min/max bounds and mask independence only as a bounded numerical stand-in (filter_thru_weighted_mean)"]

LO, HI = 2000.0, 3.0e5


def _scalar_fn(name):
    """the real scalar path of airtovac / vactoair, loaded from the current source (used as a spec-level callee contract)"""
    return amode.load("pydl.goddard.astro:" + name).fn


class _AirVacScalar(FunctionContract):
    level = "C"
    fname = "airtovac"
    rlimit = 400_000_000
    assumptions = ["A1 floats as reals (NRA)", "wavelengths in Angstrom, 100 A .. 30 um as the property states"]

    def inputs(self):
        return dict(w=sym_real("w"))

    def requires(self, w):
        return S.AND(w >= 100, w <= HI)

    def call(self, fn, w):
        return fn(w)

    def ensures(self, result, w):
        out = {"unchanged_below_2000": S.implies(w < LO, S.eq(result, w))}
        if self.fname == "airtovac":
            out["vacuum_greater_than_air"] = S.implies(w >= LO, result > w)
        else:
            out["air_less_than_vacuum"] = S.implies(w >= LO, result < w)
        return out

    def samples(self, rng):
        for _ in range(200):
            yield dict(w=rng.choice([rng.uniform(100, 1999.9), 2000.0, rng.uniform(2000, 3e5), 1999.999999]))


@register("C19")
class Airtovac(_AirVacScalar):
    name = "airtovac_scalar"
    target = "pydl.goddard.astro:airtovac"
    fname = "airtovac"


@register("C19")
class Vactoair(_AirVacScalar):
    name = "vactoair_scalar"
    target = "pydl.goddard.astro:vactoair"
    fname = "vactoair"


@register("C19")
class RoundTripAir(FunctionContract):
    """vactoair(airtovac(a)) == a to 1e-6 A for every a in [2000 A, 30 um]"""
    name = "roundtrip_air_vac_air"
    target = "pydl.goddard.astro:airtovac"
    level = "C"
    rlimit = 2_000_000_000
    wall_ms = 15_000
    assumptions = ["A1 floats as reals (NRA)", "composition of the two real functions, both re-read from the source"]

    def inputs(self):
        return dict(a=sym_real("a"))

    def requires(self, a):
        return S.AND(a >= LO, a <= HI)

    def call(self, fn, a):
        if isinstance(a, SReal):
            return _scalar_fn("vactoair")(fn(a))
        from pydl.goddard.astro import vactoair, airtovac
        return vactoair(airtovac(a))

    def ensures(self, result, a):
        d = result - a
        return {"within_1e-6_A": S.AND(d <= 1e-6, d >= -1e-6)}

    def samples(self, rng):
        for _ in range(200):
            yield dict(a=rng.choice([2000.0, rng.uniform(2000, 1e4), rng.uniform(1e4, 3e5)]))


@register("C19")
class RoundTripVac(FunctionContract):
    """airtovac(vactoair(v)) == v to 1e-6 A wherever vactoair(v) >= 2000 A"""
    name = "roundtrip_vac_air_vac"
    target = "pydl.goddard.astro:vactoair"
    level = "C"
    rlimit = 4_000_000_000
    wall_ms = 120_000
    bound = "vacuum wavelengths 2010 A .. 2 um (the NRA query for [2000,2010] A and for 2 um .. 30 um is not decided by z3/cvc5 within budget: listed undecided)"
    assumptions = RoundTripAir.assumptions + ["decided on [2010 A, 20000 A] only, in two sub-intervals"]

    def cases(self, tier):
        return [(2010.0, 3000.0), (3000.0, 20000.0)]

    def inputs(self):
        return dict(v=sym_real("v"))

    def requires(self, v):
        lo, hi = self.case if self.case else (LO, HI)
        return S.AND(v >= lo, v <= hi)

    def call(self, fn, v):
        if isinstance(v, SReal):
            air = fn(v)
            self._air = air
            return _scalar_fn("airtovac")(air)
        from pydl.goddard.astro import vactoair, airtovac
        self._air = vactoair(v)
        return airtovac(self._air)

    def ensures(self, result, v):
        d = result - v
        return {"within_1e-6_A_where_air_ge_2000": S.implies(self._air >= LO, S.AND(d <= 1e-6, d >= -1e-6))}

    def samples(self, rng):
        for _ in range(200):
            yield dict(v=rng.choice([2000.0, 2000.5, 2000.7, rng.uniform(2000, 1e4), rng.uniform(1e4, 3e5)]))


class _AirVacArray(FunctionContract):
    level = "P"
    fname = "airtovac"
    assumptions = ["A1 floats as reals", "the scalar path (under its own contract above) serves as the element-wise specification",
                   "T-nonzero (boolean-mask indexing)"]

    def inputs(self):
        n = sym_int("n")
        return dict(w=A.SArr.symbolic(A.REAL, n.z, "w"))

    def requires(self, w):
        n = S.size(w)
        return S.AND(n >= 1, S.forall(0, n, lambda i: S.AND(S.el(w, i) >= 100, S.el(w, i) <= HI)))

    def call(self, fn, w):
        self._w0 = w.term() if isinstance(w, A.SArr) else w.copy()
        return fn(w)

    def ensures(self, result, w):
        n = S.size(w)
        if isinstance(w, A.SArr):
            f = _scalar_fn(self.fname)

            def elem(i):
                x = S.el(w, i)
                # scalar path evaluated on the generic element (both of its branches)
                from pyvc.engine import eng
                return S.ite(x < LO, S.eq(S.el(result, i), x), S.eq(S.el(result, i), _above(self.fname, x)))
            out = {"elementwise_equals_scalar_path": S.forall(0, n, elem), "length": S.size(result) == n,
                   "input_unmodified": (w.term() is self._w0) or SBool(w.term() == self._w0)}
            if result is not w:
                out["fresh_array_or_input_returned_when_all_below"] = True
            return out
        from pydl.goddard import astro
        f = getattr(astro, self.fname)
        return {"elementwise_equals_scalar_path": all(S.eq(float(result[i]), float(f(float(w[i])))) for i in range(len(w))),
                "length": len(result) == len(w), "input_unmodified": bool(np.array_equal(w, self._w0))}

    def samples(self, rng):
        for _ in range(100):
            n = rng.randint(1, 6)
            yield dict(w=np.array([rng.choice([rng.uniform(100, 1999), rng.uniform(2000, 3e5)]) for _ in range(n)]))


def _above(fname, x):
    """the documented formula for wavelengths >= 2000 A, as computed by the scalar path of the real function"""
    f = _scalar_fn(fname)
    from pyvc.engine import eng
    e = eng()
    # run the scalar path under the hypothesis x >= 2000 without forking the enclosing path
    saved = (list(e.pc), dict(e.lits))
    e.pc.append((x >= LO).z)
    e.lits[z3.simplify((x < LO).z).get_id()] = False
    try:
        r = f(x)
    finally:
        e.pc[:] = saved[0]
        e.lits.clear()
        e.lits.update(saved[1])
    return r


@register("C19")
class AirtovacArray(_AirVacArray):
    name = "airtovac_array"
    target = "pydl.goddard.astro:airtovac"
    fname = "airtovac"


@register("C19")
class VactoairArray(_AirVacArray):
    name = "vactoair_array"
    target = "pydl.goddard.astro:vactoair"
    fname = "vactoair"


AB_OFFSETS = [-0.042, 0.036, 0.015, 0.013, -0.002]     # documented per-band AB corrections (u, g, r, i, z)


@register("C19")
class SdssFlux2AB(FunctionContract):
    """one AB offset per band, consistently in the magnitude, flux and inverse-variance forms; nothing else changes"""
    name = "sdssflux2ab"
    target = "pydl.photoop.sdssio:sdssflux2ab"
    level = "C"
    bound = "1..3 rows x 5 bands of symbolic reals (the body is row-wise: each row is generic)"
    assumptions = ["A1 floats as reals; 10**(-c/2.5) evaluated by CPython for the five concrete offsets", "row-wise uniformity (A3)"]

    def cases(self, tier):
        return [(r, form) for r in (1, 2, 3) for form in ("flux", "magnitude", "ivar")]

    def inputs(self):
        rows, form = self.case
        f = np.empty((rows, 5), dtype=object)
        for i in range(rows):
            for b in range(5):
                f[i, b] = sym_real("f%d_%d" % (i, b))
        return dict(flux=f, form=form)

    def call(self, fn, flux, form):
        self._f0 = flux.copy()
        return fn(flux, magnitude=(form == "magnitude"), ivar=(form == "ivar"))

    def ensures(self, result, flux, form):
        rows = flux.shape[0]
        cl = []
        for i in range(rows):
            for b in range(5):
                c = AB_OFFSETS[b]
                k = 10.0 ** (-c / 2.5)
                if form == "magnitude":
                    want = flux[i, b] + c
                elif form == "flux":
                    want = flux[i, b] * k
                else:
                    want = flux[i, b] / (k * k)
                cl.append(S.close(result[i, b], want, 1e-12))
        unmod = all(a is b_ for a, b_ in zip(flux.flat, self._f0.flat)) if flux.dtype == object else bool(np.array_equal(flux, self._f0))
        return {"per_band_offset_in_this_form": S.AND(*cl), "shape": tuple(result.shape) == tuple(flux.shape), "input_unmodified": unmod}

    def samples(self, rng):
        for _ in range(60):
            r = rng.randint(1, 4)
            yield dict(flux=np.array([[rng.uniform(0.1, 100) for _ in range(5)] for _ in range(r)]), form=rng.choice(["flux", "magnitude", "ivar"]))


@register("C19")
class FilterThruMean:
    """filter_thru returns, per trace and band, a response-weighted mean of the flux: linear, constant-preserving where the wavelengths
    overlap the band, within [min, max] of the flux, independent of the values of masked pixels (bounded, numerical)"""
    name = "filter_thru_weighted_mean"
    prop = "C19"
    target = "pydl.pydlspec2d.spec2d:filter_thru"
    level = "B"
    KINDS = ("linear_in_the_flux", "constant_spectrum_preserved", "within_min_and_max_of_the_flux", "independent_of_masked_pixel_values",
             "shape_and_finite", "no_unexpected_exception")

    def _cases(self, rng, n):
        for rep in range(n):
            nt = rng.choice([1, 2, 3])
            nx = rng.choice([60, 120])
            lo = rng.choice([3.55, 3.6, 3.7])
            hi = rng.choice([3.9, 3.95, 3.97])
            loglam = np.linspace(lo, hi, nx)
            wave = np.array([10 ** (loglam + 1e-4 * t) for t in range(nt)])
            flux = np.array([[rng.uniform(0.5, 5.0) for _ in range(nx)] for _ in range(nt)])
            kind = rng.choice(["none", "random", "same_column_all_traces", "run"])
            mask = None
            if kind == "random":
                mask = np.array([[1 if rng.random() < 0.1 else 0 for _ in range(nx)] for _ in range(nt)])
            elif kind == "same_column_all_traces":
                mask = np.zeros((nt, nx), dtype=int)
                mask[:, rng.randint(5, nx - 6)] = 1
            elif kind == "run":
                mask = np.zeros((nt, nx), dtype=int)
                a = rng.randint(5, nx - 15)
                mask[rng.randint(0, nt - 1), a:a + 6] = 1
            yield dict(wave=wave, flux=flux, mask=mask, inp=dict(rep=rep, ntrace=nt, nx=nx, mask=kind, loglam=[lo, hi]))

    def _check(self, c, rng):
        import warnings
        from pydl.pydlspec2d.spec2d import filter_thru
        bad = []
        wave, flux, mask = c["wave"], c["flux"], c["mask"]
        with warnings.catch_warnings():
            warnings.simplefilter("ignore")
            r = filter_thru(flux.copy(), waveimg=wave.copy(), mask=None if mask is None else mask.copy())
            if r.shape != (flux.shape[0], 5) or not np.all(np.isfinite(r)):
                bad.append(("shape_and_finite", "shape %s finite %s" % (r.shape, bool(np.all(np.isfinite(r))))))
                return bad
            f2 = np.array([[rng.uniform(0.5, 5.0) for _ in range(flux.shape[1])] for _ in range(flux.shape[0])])
            a, b = rng.uniform(-2, 2), rng.uniform(-2, 2)
            r2 = filter_thru(f2.copy(), waveimg=wave.copy(), mask=None if mask is None else mask.copy())
            r12 = filter_thru(a * flux + b * f2, waveimg=wave.copy(), mask=None if mask is None else mask.copy())
            if not np.allclose(r12, a * r + b * r2, rtol=1e-8, atol=1e-10):
                bad.append(("linear_in_the_flux", "deviation %g" % np.abs(r12 - (a * r + b * r2)).max()))
            cst = filter_thru(np.full(flux.shape, 3.25), waveimg=wave.copy(), mask=None if mask is None else mask.copy())
            overlap = filter_thru(np.ones(flux.shape), waveimg=wave.copy()) > 0
            if not np.allclose(cst[overlap], 3.25, rtol=1e-9):
                bad.append(("constant_spectrum_preserved", "bands %s" % cst))
            good = flux if mask is None else np.where(mask != 0, np.nan, flux)
            lo_, hi_ = np.nanmin(good, axis=1), np.nanmax(good, axis=1)
            for t in range(flux.shape[0]):
                for bnd in range(5):
                    if overlap[t, bnd] and not (lo_[t] - 1e-9 <= r[t, bnd] <= hi_[t] + 1e-9):
                        bad.append(("within_min_and_max_of_the_flux", "trace %d band %d: %g outside [%g, %g]" % (t, bnd, r[t, bnd], lo_[t], hi_[t])))
            if mask is not None:
                junk = flux.copy()
                junk[mask != 0] = 1.0e6
                rj = filter_thru(junk, waveimg=wave.copy(), mask=mask.copy())
                if not np.allclose(rj, r, rtol=1e-9, atol=1e-12):
                    bad.append(("independent_of_masked_pixel_values", "changes by %g when masked pixels are set to 1e6" % np.abs(rj - r).max()))
        return bad

    def run_job(self, tier, seed, exclusions):
        import random
        import time
        import traceback
        t0 = time.time()
        res = JobResult(job=self.name, target=self.target, level="B", prop="C19", obligations=[], failures=[], crashed=None,
                        bound="generated flux images (1..3 traces, 60/120 pixels), wavelength images over 3500-9300 A, masks: none / random / same column in every trace / a run",
                        paths=0, solver_s=0.0, queries=0, native_runs=0, native_failures=[], vacuity=None,
                        assumptions=["numerical check (1e-8) with the real filter curves shipped in pydl/pydlutils/data/filters", "wavelength solution given as an image (the trace-set form goes through traceset2xy, C13)"])
        fails = {}
        n = 0
        try:
            rng = random.Random(seed * 7 + 2)
            for c in self._cases(rng, 12 if tier == "quick" else 80):
                n += 1
                try:
                    for kind, msg in self._check(c, rng):
                        fails.setdefault(kind, []).append((msg, c["inp"]))
                except Exception as e:
                    fails.setdefault("no_unexpected_exception", []).append(("%s: %s" % (type(e).__name__, str(e)[:150]), c["inp"]))
            res["paths"] = res["native_runs"] = n
            for kd in self.KINDS:
                b = fails.get(kd, [])
                d = dict(name=self.name + ":" + kd, path=0, status="unsat" if not b else "sat", secs=0.0, backend="native-numeric", size=0, note="" if not b else b[0][0])
                if b:
                    d.update(inputs=dict(clause=kd, seed=seed, **b[0][1]), model=str(b[:2])[:1000], reason="")
                res["obligations"].append(d)
            res["vacuity"] = dict(cases=n)
        except Exception:
            res["crashed"] = traceback.format_exc()
        res["wall_s"] = time.time() - t0
        return res

    def native_replay(self, inputs):
        import random
        rng = random.Random(int(inputs.get("seed", 0)) * 7 + 2)
        last = None
        for c in self._cases(rng, int(inputs["rep"]) + 1):
            last = c
            if c["inp"]["rep"] < int(inputs["rep"]):
                try:
                    self._check(c, rng)
                except Exception:
                    pass
        try:
            bad = self._check(last, rng)
        except Exception as e:
            bad = [("no_unexpected_exception", "%s: %s" % (type(e).__name__, e))]
        return (not bad, "case %s: %s" % (last["inp"], bad[:2]))


# ---------------------------------------------------------------------------
# the two public conversions on concrete inputs of every admissible form (bounded stand-in): gives replayable inputs and covers integer and
# float32 arrays, Quantities and repeated calls, which the symbolic jobs reach only through the float-array path
# ---------------------------------------------------------------------------
from pyvc.numeric import NumericJob as _NumericJob


@register("C19")
class AirVacNative(_NumericJob):
    name = "airvac_input_forms"
    target = "pydl.goddard.astro:airtovac, vactoair"
    bound = ("arrays of 1..12 wavelengths 100 A .. 30 um (mixed below / at / above 2000 A) as float64, float32, int64, int32 arrays, Python floats, and "
             "Quantities in Angstrom / nm / um; every call repeated on the same array")
    KINDS = ("every_input_form_gives_the_float_scalar_result", "below_2000_unchanged_and_vacuum_greater_than_air_above", "round_trips_within_1e-6_A",
             "input_not_modified_and_answer_in_the_callers_unit")
    NQ, NT = 150, 1500

    def _cases(self, rng, n):
        for rep in range(n):
            m = rng.randint(1, 12)
            w = [rng.choice([100.0, 1999.0, 2000.0, 2001.0, 5000.0, 12345.0, 299999.0, float(rng.randint(101, 299998)), rng.uniform(100, 3e5)]) for _ in range(m)]
            yield dict(w=w, form=rng.choice(["f8", "f4", "i8", "i4", "A", "nm", "um"]), inp=dict(rep=rep, n=m))

    def _check(self, c):
        import astropy.units as u
        from pydl.goddard.astro import airtovac, vactoair
        bad = []
        form = c["form"]
        w = np.array(c["w"], dtype=float)
        if form in ("i8", "i4"):
            w = np.floor(w)
        if form == "f4":
            w = w.astype("f4").astype(float)
        if form in ("nm", "um"):
            # the conversion jumps by 0.65 A at exactly 2000 A; 200 nm -> 1999.9999999999998 A in floating point lands on the other side of the jump:
            # a rounding effect of the unit conversion, not of the routine -- keep Quantity inputs in other units off the exact threshold
            w = np.where(np.abs(w - 2000.0) < 1e-6, 2000.5, w)
        ref_vac = np.array([float(airtovac(float(x))) for x in w])
        ref_air = np.array([float(vactoair(float(x))) for x in w])
        unit = {"A": u.Angstrom, "nm": u.nm, "um": u.um}.get(form)
        if unit is None:
            arr = w.astype(form)
        else:
            arr = (w * u.Angstrom).to(unit)
        keep = arr.copy()
        for name, fn, ref in (("airtovac", airtovac, ref_vac), ("vactoair", vactoair, ref_air)):
            out1 = fn(arr)
            out2 = fn(arr)          # the same array again
            same_in = np.array_equal(np.asarray(arr.value if unit is not None else arr), np.asarray(keep.value if unit is not None else keep))
            if not same_in:
                bad.append(("input_not_modified_and_answer_in_the_callers_unit", "%s modified its %s input" % (name, form)))
            if unit is not None:
                if not (hasattr(out1, "unit") and out1.unit == unit):
                    bad.append(("input_not_modified_and_answer_in_the_callers_unit", "%s answered in %s for input in %s" % (name, getattr(out1, "unit", None), unit)))
                    continue
                v1, v2 = out1.to(u.Angstrom).value, out2.to(u.Angstrom).value
            else:
                v1, v2 = np.asarray(out1, dtype=float), np.asarray(out2, dtype=float)
            tol = 1e-9 * np.maximum(ref, 1.0) if form != "f4" else 2e-7 * np.maximum(ref, 1.0)      # float32 results carry float32 rounding
            if v1.shape != ref.shape or (np.abs(v1 - ref) > tol).any() or not np.array_equal(v1, v2):
                k = int(np.argmax(np.abs(v1 - ref))) if v1.shape == ref.shape else 0
                bad.append(("every_input_form_gives_the_float_scalar_result", "%s(%s array): element %d (%.4f A) -> %r, scalar call %r; repeated call equal: %s" %
                            (name, form, k, w[k], float(v1[k]) if v1.shape == ref.shape else None, float(ref[k]), bool(np.array_equal(v1, v2)))))
        lo = w < 2000.0
        if not (np.array_equal(ref_vac[lo], w[lo]) and np.array_equal(ref_air[lo], w[lo]) and (ref_vac[~lo] > w[~lo]).all() and (ref_air[w > 2001.0] < w[w > 2001.0]).all()):
            bad.append(("below_2000_unchanged_and_vacuum_greater_than_air_above", "wavelengths %s" % w.tolist()))
        hi = w >= 2000.0
        rt1 = np.array([float(vactoair(airtovac(float(x)))) for x in w[hi]])
        airs = np.array([float(vactoair(float(x))) for x in w[hi]])
        rt2 = np.array([float(airtovac(float(a))) for a in airs])
        ok2 = np.abs(rt2 - w[hi])[airs >= 2000.0] <= 1e-6
        if (np.abs(rt1 - w[hi]) > 1e-6).any() or not ok2.all():
            bad.append(("round_trips_within_1e-6_A", "wavelengths %s" % w[hi].tolist()))
        return bad
