"""C11 -- combine1fiber resamples spectra: finite flux, conservative inverse variance."""
import numpy as np
from pyvc.harness import register
from pyvc.numeric import NumericJob

EVIDENCE_LEVEL = "other"
EXPLANATION = ("Run-time contract on the real combine1fiber / preprocess_spectra: the postcondition of the property statement (lengths, finiteness, "
               "inverse variance >= 0 and exactly 0 outside pairs of adjacent good input pixels, identity / constant / scaling laws, linear "
               "interpolation of the inverse variance, de-redshifting) evaluated on generated spectra and grids. Bounded stand-in only: the "
               "B-spline fit (iterfit), np.interp and the float thresholds are outside the reach of the symbolic engine.")
UNDECIDED = ["preprocess_spectra with 2-D loglam and no newloglam (the derived grid takes loglam[1]-loglam[0] as the bin size and fails with TypeError/IndexError): "
             "outside the stated domain of the property, not generated, not reported", "everything beyond the generated inputs: no obligation of this property is proved", "the value of the fitted spline other than through the laws above",
             "andmask / ormask / dispersion / sky outputs (computed but not returned by the port)"]
SPPIXMASK = {"NOPLUG": 0, "BADTRACE": 1, "BADFLAT": 2, "BADARC": 3, "MANYBADCOLUMNS": 4, "MANYREJECTED": 5, "LARGESHIFT": 6, "BADSKYFIBER": 7,
             "NEARWHOPPER": 8, "WHOPPER": 9, "SMEARIMAGE": 10, "SMEARHIGHSN": 11, "SMEARMEDSN": 12, "NEARBADPIXEL": 16, "LOWFLAT": 17,
             "FULLREJECT": 18, "PARTIALREJECT": 19, "SCATTEREDLIGHT": 20, "CROSSTALK": 21, "NOSKY": 22, "BRIGHTSKY": 23, "NODATA": 24,
             "COMBINEREJ": 25, "BADFLUXFACTOR": 26, "BADSKYCHI": 27, "REDMONSTER": 28}
BIN = 1.0e-4


def _between_good(lam, x, good, tol=1e-9):
    """output pixel lam lies between two adjacent good input pixels of one exposure (closed interval), or on a good input pixel"""
    order = np.argsort(x)
    xs, gs = x[order], good[order]
    out = np.zeros(lam.shape, dtype=bool)
    for i in range(xs.size - 1):
        if gs[i] and gs[i + 1]:
            out |= (lam >= xs[i] - tol * BIN) & (lam <= xs[i + 1] + tol * BIN)
    for i in range(xs.size):
        if gs[i]:
            out |= np.abs(lam - xs[i]) <= tol * BIN
    return out


def _lin_interp(lam, x, v):
    """linear interpolation written out (no np.interp); nan outside the range"""
    order = np.argsort(x)
    xs, vs = x[order], v[order]
    out = np.full(lam.shape, np.nan)
    hi = np.full(lam.shape, np.nan)
    for k, l in enumerate(lam):
        for i in range(xs.size - 1):
            if xs[i] <= l <= xs[i + 1]:
                t = (l - xs[i]) / (xs[i + 1] - xs[i])
                out[k] = vs[i] + t * (vs[i + 1] - vs[i])
                hi[k] = max(vs[i], vs[i + 1])
                break
    return out, hi


def _call(*a, **kw):
    import warnings
    from unittest import mock
    import pydl.pydlutils.sdss as sd
    from pydl.pydlspec2d.spec2d import combine1fiber
    with warnings.catch_warnings():
        warnings.simplefilter("ignore")
        with mock.patch.object(sd, "maskbits", {"SPPIXMASK": dict(SPPIXMASK)}):
            return combine1fiber(*a, **kw)


@register("C11")
class Combine1Fiber(NumericJob):
    name = "combine1fiber"
    target = "pydl.pydlspec2d.spec2d:combine1fiber"
    bound = ("single spectra of 12..260 pixels and 2..3 stacked exposures of 110..200 pixels on log-wavelength grids of step 1e-4; zero-weight patterns none / "
             "isolated / runs / ends / all; output grids identical, shifted by a fraction of a pixel, wider, narrower, coarser; the four aesthetics methods; "
             "with and without inverse variance; maskbits table supplied in memory")
    KINDS = ("outputs_have_grid_length_and_are_finite", "inverse_variance_non_negative", "zero_inverse_variance_outside_adjacent_good_input_pixels",
             "same_grid_identity_where_weighted", "constant_spectrum_stays_constant", "scaling_flux_c_ivar_c_minus_2",
             "single_spectrum_ivar_is_linear_interpolation_below_local_maximum")
    NQ, NT = 160, 1600

    def _cases(self, rng, n):
        for rep in range(n):
            stacked = rng.random() < 0.25
            nspec = rng.randint(2, 3) if stacked else 1
            npix = rng.randint(110, 200) if stacked else rng.choice([rng.randint(12, 40), rng.randint(40, 260)])
            start = 3.5 + rng.uniform(0, 0.3)
            offs = [0] + [rng.choice([0, 0, rng.randint(5, 60)]) for _ in range(nspec - 1)]      # exposures may cover different ranges
            x = np.array([start + BIN * (np.arange(npix) + offs[s] + (rng.uniform(-0.4, 0.4) if s else 0.0)) for s in range(nspec)])
            kind = rng.choice(["smooth", "smooth", "constant", "noisy"])
            amp, per = rng.uniform(0.5, 3.0), rng.uniform(25, 80)
            base = rng.choice([rng.uniform(5, 20), rng.uniform(5, 20), 3.0, 250.0, -2.0, 0.5])     # round constants have an exactly zero sample variance
            flux = base + (0.0 if kind == "constant" else amp) * np.sin((x - start) / BIN / per)
            iv = np.array([[rng.uniform(0.5, 4.0) for _ in range(npix)] for _ in range(nspec)])
            if rng.random() < 0.3:
                iv[:] = rng.uniform(0.5, 4.0)
            if kind == "noisy":
                flux = flux + np.array([[rng.gauss(0, 1) for _ in range(npix)] for _ in range(nspec)]) / np.sqrt(iv)
            pat = rng.choice(["none", "none", "isolated", "runs", "ends", "all"]) if not stacked else rng.choice(["none", "isolated", "runs"])
            for s in range(nspec):
                if pat == "isolated":
                    for _ in range(rng.randint(1, 4)):
                        iv[s, rng.randrange(npix)] = 0.0
                elif pat == "runs":
                    for _ in range(rng.randint(1, 2)):
                        a = rng.randrange(npix)
                        iv[s, a:a + rng.randint(2, 8 if stacked else 12)] = 0.0
                elif pat == "ends":
                    iv[s, :rng.randint(1, 5)] = 0.0
                    iv[s, -rng.randint(1, 5):] = 0.0
                elif pat == "all":
                    iv[s, :] = 0.0
                if stacked and (iv[s] > 0).sum() < 101:        # precondition of the property: >= 101 good pixels per stacked exposure
                    iv[s, :] = np.where(iv[s] > 0, iv[s], 1.0)
            grid = rng.choice(["same", "shifted", "wider", "narrower", "coarser"])
            x0 = x[0]
            if grid == "same":
                new = x0.copy()
            elif grid == "shifted":
                new = x0 + rng.uniform(0.05, 0.95) * BIN
            elif grid == "wider":
                k = rng.randint(3, 25)
                new = x0[0] - k * BIN + BIN * np.arange(npix + k + rng.randint(3, 25)) + rng.choice([0.0, rng.uniform(0, 1) * BIN])
            elif grid == "narrower":
                a = rng.randint(1, max(1, npix // 4))
                new = x0[a:npix - rng.randint(1, max(1, npix // 4))].copy() + rng.choice([0.0, rng.uniform(0, 1) * BIN])
            else:
                new = x0[0] + 2 * BIN * np.arange(npix // 2)
            if not stacked:
                x, flux, iv = x[0], flux[0], iv[0]
            fpar = (base, 0.0 if kind == "constant" else amp, per, start)
            yield dict(x=x, flux=flux, iv=iv, new=new, fpar=fpar, method=rng.choice(["traditional", "traditional", "noconst", "mean", "nothing", "damp"]),
                       with_ivar=stacked or rng.random() < 0.8, kind=kind, grid=grid,
                       inp=dict(rep=rep, nspec=nspec, npix=npix, flux=kind, zero_weights=pat, grid=grid))

    def _check(self, c):
        x, flux, iv, new, method = c["x"], c["flux"], c["iv"], c["new"], c["method"]
        with_ivar = c["with_ivar"]
        x0, f0, iv0, n0 = x.copy(), flux.copy(), iv.copy(), new.copy()
        kw = dict(aesthetics=method)
        nf, ni = _call(x, flux, new, objivar=iv if with_ivar else None, **kw)     # objivar is documented to be updated in place (rejected pixels)
        bad = []
        nf, ni = np.asarray(nf), np.asarray(ni)
        if nf.shape != new.shape or ni.shape != new.shape or not (np.isfinite(nf).all() and np.isfinite(ni).all()):
            return bad + [("outputs_have_grid_length_and_are_finite", "shapes %s %s for a grid of %d; finite: %s" % (nf.shape, ni.shape, new.size, np.isfinite(nf).all() and np.isfinite(ni).all()))]
        if (ni < 0).any():
            bad.append(("inverse_variance_non_negative", "min %g" % ni.min()))
        w0 = iv0 if with_ivar else np.ones(iv0.shape)
        X, W = np.atleast_2d(x0), np.atleast_2d(w0)
        allowed = np.zeros(new.shape, dtype=bool)
        for s in range(X.shape[0]):
            allowed |= _between_good(new, X[s], W[s] > 0)
        if (ni[~allowed] != 0).any():
            k = int(np.flatnonzero((ni != 0) & ~allowed)[0])
            bad.append(("zero_inverse_variance_outside_adjacent_good_input_pixels", "output pixel %d (loglam %.6f) has ivar %g" % (k, new[k], ni[k])))
        good = ni > 0
        if X.shape[0] == 1 and with_ivar:
            li, hi = _lin_interp(new, x0, iv0)
            if good.any() and not (np.allclose(ni[good], li[good], rtol=1e-9, atol=0) and (ni[good] <= hi[good] * (1 + 1e-12)).all()):
                k = int(np.flatnonzero(good)[np.argmax(np.abs(ni[good] - li[good]))])
                bad.append(("single_spectrum_ivar_is_linear_interpolation_below_local_maximum", "pixel %d: %g, interpolation %g, local maximum %g" % (k, ni[k], li[k], hi[k])))
        # 'damp' multiplies the whole spectrum, good pixels included, by an error-function taper towards the ends of the good range
        # (its purpose, as in the IDL original): the value clauses below are not stated for it
        # output pixels at least 3 input pixels inside a completely good single spectrum: "where the input is good"
        inner = np.zeros(new.shape, dtype=bool)
        if X.shape[0] == 1 and (W > 0).all():
            inner = (new >= X[0].min() + 3 * BIN) & (new <= X[0].max() - 3 * BIN)
        if c["kind"] == "constant" and (good.any() or inner.any()) and method != "damp":
            where = (good | inner) if method == "nothing" else np.ones(new.shape, dtype=bool)
            cval = f0.flat[0]
            if not np.allclose(nf[where], cval, rtol=1e-4, atol=0):      # the normal equations of short groups are ill-conditioned: ~1e-5 observed
                bad.append(("constant_spectrum_stays_constant", "method %s: constant %g, output between %g and %g" % (method, cval, nf[where].min(), nf[where].max())))
        if c["grid"] == "same" and c["kind"] in ("smooth", "constant") and X.shape[0] == 1 and (good | inner).any() and method != "damp":
            err = np.abs(nf - f0)[good | inner].max()
            if err > 2e-3 * max(1.0, np.abs(f0).max()):
                bad.append(("same_grid_identity_where_weighted", "max deviation %g where the output carries weight" % err))
        # a smooth noise-free spectrum is reproduced on ANY output grid wherever the output carries weight (the same-grid identity generalised)
        if c["kind"] in ("smooth", "constant") and X.shape[0] == 1 and method != "damp" and good.any():
            b_, a_, p_, s_ = c["fpar"]
            ftrue = b_ + a_ * np.sin((new - s_) / BIN / p_)
            err = np.abs(nf - ftrue)[good].max()
            if err > 5e-3 * max(1.0, np.abs(f0).max()):
                k = int(np.flatnonzero(good)[np.argmax(np.abs(nf - ftrue)[good])])
                bad.append(("same_grid_identity_where_weighted", "grid %s: output pixel %d (ivar %g) is %g, the smooth spectrum there is %g" % (c["grid"], k, ni[k], nf[k], ftrue[k])))
        if c["kind"] != "noisy":
            cs = (0.25, 4.0)[c["inp"]["rep"] % 2]
            nf2, ni2 = _call(x0.copy(), f0 * cs, n0.copy(), objivar=(iv0 / cs ** 2) if with_ivar else None, **kw)
            if not (np.allclose(nf2, nf * cs, rtol=1e-7, atol=1e-9) and (not with_ivar or np.allclose(ni2, ni / cs ** 2, rtol=1e-9, atol=0))):
                bad.append(("scaling_flux_c_ivar_c_minus_2", "c = %g: flux ratio deviates by %g" % (cs, np.abs(nf2 - nf * cs).max())))
        return bad


@register("C11")
class PreprocessSpectra(NumericJob):
    name = "preprocess_spectra"
    target = "pydl.pydlspec2d.spec1d:preprocess_spectra"
    bound = ("1..4 objects of 150..400 pixels with one Gaussian emission line each, redshifts 0..0.3, one shared or per-object wavelength rows (zero-padded), "
             "output grid given or derived (wavemin / wavemax optional), zero-weight runs away from the line")
    KINDS = ("feature_moves_to_L_minus_log10_1_plus_z", "outputs_finite_with_grid_shape", "inverse_variance_non_negative_and_zero_outside_shifted_data")
    NQ, NT = 60, 600

    def _cases(self, rng, n):
        for rep in range(n):
            nobj, npix = rng.randint(1, 4), rng.randint(150, 400)
            start = 3.55 + rng.uniform(0, 0.2)
            z = np.array([rng.uniform(0, 0.3) for _ in range(nobj)])
            if rng.random() < 0.2:
                z[:] = 0.0
            rows = rng.random() < 0.5
            loglam = start + BIN * np.arange(npix)
            L = np.array([loglam[rng.randint(30, npix - 31)] + rng.uniform(-0.5, 0.5) * BIN for _ in range(nobj)])
            width = rng.uniform(2.0, 4.0)
            flux = np.array([5.0 + 40.0 * np.exp(-0.5 * ((loglam - L[o]) / (width * BIN)) ** 2) for o in range(nobj)])
            ivar = np.array([[rng.uniform(0.5, 2.0) for _ in range(npix)] for _ in range(nobj)])
            for o in range(nobj):
                if rng.random() < 0.5:
                    a = rng.choice([rng.randint(0, 15), rng.randint(npix - 25, npix - 8)])
                    ivar[o, a:a + rng.randint(1, 6)] = 0.0
            ll = np.tile(loglam, (nobj, 1)) if rows else loglam
            given = rows or rng.random() < 0.4      # per-object wavelength rows are only supported together with a given output grid
            new = None
            if given:
                new = start - np.log10(1.3) - 10 * BIN + BIN * np.arange(npix + int(np.log10(1.3) / BIN) + 20)
            yield dict(flux=flux, ivar=ivar, loglam=ll, z=z, L=L, new=new, method=rng.choice(["mean", "traditional", "nothing"]),
                       zfit=not (z == 0).all() or rng.random() < 0.5,
                       inp=dict(rep=rep, nobj=nobj, npix=npix, per_object_wavelengths=rows, grid_given=given, z=[round(float(v), 4) for v in z]))

    def _check(self, c):
        import warnings
        from unittest import mock
        import pydl.pydlutils.sdss as sd
        from pydl.pydlspec2d.spec1d import preprocess_spectra
        from astropy import log as _alog
        _alog.setLevel("WARNING")
        flux, ivar, ll, z, L = c["flux"], c["ivar"], c["loglam"], c["z"], c["L"]
        iv0 = ivar.copy()
        with warnings.catch_warnings():
            warnings.simplefilter("ignore")
            with mock.patch.object(sd, "maskbits", {"SPPIXMASK": dict(SPPIXMASK)}):
                nf, ni, nl = preprocess_spectra(flux.copy(), ivar.copy(), loglam=ll.copy(), zfit=z.copy() if c["zfit"] else None, newloglam=None if c["new"] is None else c["new"].copy(),
                                                aesthetics=c["method"])
        bad = []
        nf, ni, nl = np.asarray(nf), np.asarray(ni), np.asarray(nl)
        nobj = flux.shape[0]
        if nf.shape != (nobj, nl.size) or ni.shape != nf.shape or not (np.isfinite(nf).all() and np.isfinite(ni).all()):
            return [("outputs_finite_with_grid_shape", "shapes %s %s for %d objects on a grid of %d" % (nf.shape, ni.shape, nobj, nl.size))]
        if c["new"] is not None and not np.array_equal(nl, c["new"]):
            bad.append(("outputs_finite_with_grid_shape", "the given output grid was not returned"))
        row = np.atleast_2d(ll)
        for o in range(nobj):
            x = row[o if row.shape[0] > 1 else 0] - np.log10(1.0 + z[o])
            allowed = _between_good(nl, x, iv0[o] > 0)
            if (ni[o] < 0).any() or (ni[o][~allowed] != 0).any():
                bad.append(("inverse_variance_non_negative_and_zero_outside_shifted_data", "object %d" % o))
            want = L[o] - np.log10(1.0 + z[o])
            if nl.min() + 5 * BIN <= want <= nl.max() - 5 * BIN:
                peak = nl[int(np.argmax(nf[o]))]
                if abs(peak - want) > 1.01 * BIN:
                    bad.append(("feature_moves_to_L_minus_log10_1_plus_z", "object %d (z=%.4f): line at %.6f expected at %.6f, found at %.6f" % (o, z[o], L[o], want, peak)))
                # centroid to a tenth of a pixel
                sel = np.abs(nl - want) < 12 * BIN
                if sel.sum() > 10 and (ni[o][sel] > 0).all():
                    wgt = nf[o][sel] - 5.0
                    cen = (wgt * nl[sel]).sum() / wgt.sum()
                    if abs(cen - want) > 0.15 * BIN:
                        bad.append(("feature_moves_to_L_minus_log10_1_plus_z", "object %d (z=%.4f): centroid %.7f, expected %.7f" % (o, z[o], cen, want)))
        return bad
