"""C15 -- least-squares and factorisation solvers return the optimum they claim."""
import itertools
import numpy as np
from pyvc.harness import register, JobResult
from pyvc.numeric import NumericJob

EVIDENCE_LEVEL = "other"
EXPLANATION = ("HMF.astep / HMF.gstep: the real methods run on symbolic spectra, weights and factors (sympy, bounded shapes) with numpy.linalg.solve "
               "replaced by its contract A x = b; the system handed to solve is, as a polynomial identity, the stationarity condition of the weighted "
               "chi-square (plus smoothness penalty) in the updated factor; the multiplicative non-negative updates are ratios of polynomials with "
               "non-negative coefficients. computechi2, pcomp, the HMF iteration (monotone chi-square, unit-rms components, seed determinism, "
               "non-negativity, caller's arrays) and pca_solve: run-time contracts against independent solvers on generated data (bounded stand-ins).")
UNDECIDED = ["numpy.linalg.solve / svd / scipy eigh / kmeans: trusted kernels (solve by contract, the others compared numerically)",
             "conditioning: systems with condition number above 1e8 are not generated", "all sizes beyond the stated bounds"]


def _sym_array(sp, name, shape, **assume):
    class Sy(sp.Symbol):
        def sqrt(self):              # numpy's object-array sqrt calls the element's .sqrt()
            return sp.sqrt(self)
    a = np.empty(shape, dtype=object)
    for idx in np.ndindex(*shape):
        a[idx] = Sy("%s_%s" % (name, "_".join(map(str, idx))), **assume)
    return a


@register("C15")
class HMFSteps:
    """astep/gstep under the solve contract; astepnn/gstepnn positivity.  Level C: bounded shapes, symbolic values (polynomial identities)."""
    name = "hmf_steps_stationarity"
    target = "pydl.pydlspec2d.spec1d:HMF.astep, HMF.gstep, HMF.astepnn, HMF.gstepnn, HMF.badness, HMF.penalty"
    level = "C"
    SHAPES = [(2, 3, 1), (2, 3, 2), (3, 4, 2), (3, 3, 3)]        # (N objects, M pixels, K components)

    def run_job(self, tier, seed, exclusions):
        import time
        import traceback
        from unittest import mock
        import sympy as sp
        t0 = time.time()
        res = JobResult(job=self.name, target=self.target, level="C", prop="C15", obligations=[], failures=[], crashed=None,
                        bound="shapes (N, M, K) in %s; every entry of spectra, invvar, a, g and epsilon a free real symbol" % (self.SHAPES,),
                        paths=0, solver_s=0.0, queries=0, native_runs=0, native_failures=[], vacuity=None,
                        assumptions=["numpy.linalg.solve(A, b) replaced by its contract: returns x with A x = b (A non-singular)",
                                     "floats as reals (sympy exact arithmetic); the real method bodies are executed by CPython/numpy on object arrays",
                                     "gstep with epsilon: stationarity in column j with the neighbouring columns at their previous values (the update the code performs)"])

        def ob(name, ok, note=""):
            d = dict(name=self.name + ":" + name, path=0, status="unsat" if ok else "sat", secs=0.0, backend="polyid", size=0, note="" if ok else note)
            if not ok:
                d.update(inputs=None, model=note, reason="")
            res["obligations"].append(d)
        try:
            import pydl.pydlspec2d.spec1d as M
            for (N, Mp, K) in self.SHAPES:
                tag = "[N=%d,M=%d,K=%d]" % (N, Mp, K)
                s = _sym_array(sp, "s", (N, Mp), real=True)
                w = _sym_array(sp, "w", (N, Mp), real=True)
                g = _sym_array(sp, "g", (K, Mp), real=True)
                a = _sym_array(sp, "a", (N, K), real=True)
                calls = []

                def solve_contract(A, b):
                    x = _sym_array(sp, "x%d" % len(calls), (len(b),), real=True)
                    calls.append((np.array(A, dtype=object), np.array(b, dtype=object), x))
                    return x
                for eps_kind in ("none", "symbolic"):
                    eps = None if eps_kind == "none" else sp.Symbol("eps", positive=True)
                    h = M.HMF(s, w, K=K, epsilon=eps)
                    h.g, h.a = g.copy(), a.copy()

                    def badness(aa, gg):
                        h2 = M.HMF(s, w, K=K, epsilon=eps)
                        h2.a, h2.g = aa, gg
                        chi2 = sum((w[i, j] * (s[i, j] - sum(aa[i, k] * gg[k, j] for k in range(K))) ** 2 for i in range(N) for j in range(Mp)), sp.Integer(0))
                        pen = sp.Integer(0) if eps is None else eps * sum(((gg[k, j + 1] - gg[k, j]) ** 2 for k in range(K) for j in range(Mp - 1)), sp.Integer(0))
                        return chi2 + pen
                    # ---- astep
                    del calls[:]
                    with mock.patch.object(M, "solve", solve_contract):
                        anew = h.astep()
                    res["paths"] += 1
                    ok = anew.shape == (N, K) and len(calls) == N
                    note = ""
                    if ok:
                        for i, (A, b, x) in enumerate(calls):
                            if not all(anew[i, k] == x[k] for k in range(K)):
                                ok, note = False, "row %d of the result is not the solution returned by solve" % i
                                break
                            atry = a.copy()
                            atry[i, :] = x
                            B = badness(atry, g)
                            for k in range(K):
                                # d(badness)/d a_ik at a_i = x must equal -2 (b - A x)_k : it vanishes exactly when A x = b
                                if sp.expand(sp.diff(B, x[k]) + 2 * (b[k] - sum(A[k, kp] * x[kp] for kp in range(K)))) != 0:
                                    ok, note = False, "object %d, component %d: the system given to solve is not the stationarity condition of chi-square" % (i, k)
                                    break
                            if not ok:
                                break
                    ob("astep_solves_the_stationarity_condition_in_a%s[eps=%s]" % (tag, eps_kind), ok, note)
                    # ---- gstep
                    del calls[:]
                    with mock.patch.object(M, "solve", solve_contract):
                        gnew = h.gstep()
                    res["paths"] += 1
                    ok = gnew.shape == (K, Mp) and len(calls) == Mp
                    note = ""
                    if ok:
                        for j, (A, b, x) in enumerate(calls):
                            if not all(gnew[k, j] == x[k] for k in range(K)):
                                ok, note = False, "column %d of the result is not the solution returned by solve" % j
                                break
                            gtry = g.copy()
                            gtry[:, j] = x
                            B = badness(a, gtry)
                            for k in range(K):
                                if sp.expand(sp.diff(B, x[k]) + 2 * (b[k] - sum(A[k, kp] * x[kp] for kp in range(K)))) != 0:
                                    ok, note = False, "pixel %d, component %d: the system given to solve is not the stationarity condition of chi-square + penalty" % (j, k)
                                    break
                            if not ok:
                                break
                    ob("gstep_solves_the_stationarity_condition_in_g%s[eps=%s]" % (tag, eps_kind), ok, note)
                    # ---- the objective the steps claim to minimise is the one the class reports
                    h.a, h.g = a.copy(), g.copy()
                    ob("badness_is_weighted_chi_square_plus_penalty%s[eps=%s]" % (tag, eps_kind), sp.expand(h.badness() - badness(a, g)) == 0,
                       "HMF.badness() differs from sum w (s - a g)^2 + eps sum diff(g)^2")
                # ---- non-negative multiplicative updates
                sp_, wp, gp, ap = (_sym_array(sp, nm, shp, positive=True) for nm, shp in (("s", (N, Mp)), ("w", (N, Mp)), ("g", (K, Mp)), ("a", (N, K))))
                for eps_kind in ("none", "symbolic"):
                    eps = None if eps_kind == "none" else sp.Symbol("eps", positive=True)
                    h = M.HMF(sp_, wp, K=K, epsilon=eps, nonnegative=True)
                    h.g, h.a = gp.copy(), ap.copy()
                    for nm, out in (("astepnn", h.astepnn()), ("gstepnn", h.gstepnn())):
                        res["paths"] += 1
                        ok = True
                        for e in out.flat:
                            num, den = sp.fraction(sp.together(e))
                            syms = sorted(e.free_symbols, key=str)
                            if not (all(c > 0 for c in sp.Poly(sp.expand(num), *syms).coeffs()) and all(c > 0 for c in sp.Poly(sp.expand(den), *syms).coeffs())):
                                ok = False
                                break
                        ob("%s_is_a_ratio_of_polynomials_with_positive_coefficients%s[eps=%s]" % (nm, tag, eps_kind), ok,
                           "an entry of %s() is not manifestly non-negative for non-negative data and factors" % nm)
            res["vacuity"] = dict(shapes=len(self.SHAPES))
        except Exception:
            res["crashed"] = traceback.format_exc()
        res["wall_s"] = time.time() - t0
        return res


# ---------------------------------------------------------------------------
# bounded numerical stand-ins against independent solvers
# ---------------------------------------------------------------------------
def _rand(rng, shape, lo=-1.0, hi=1.0):
    return np.array([rng.uniform(lo, hi) for _ in range(int(np.prod(shape)))]).reshape(shape)


@register("C15")
class ComputeChi2(NumericJob):
    name = "computechi2"
    target = "pydl.pydlutils.math:computechi2"
    bound = "N = M+1..40 equations, M = 1..6 unknowns, random full-rank A (condition <= 1e4 after weighting), random weights with up to 30% zeros"
    KINDS = ("coefficients_minimise_weighted_chi_square", "yfit_is_A_times_coefficients", "chi2_is_weighted_residual_sum", "dof_counts_positive_weights_minus_unknowns",
             "covariance_is_inverse_of_AtWA_and_var_its_diagonal")
    NQ, NT = 300, 3000

    def _cases(self, rng, n):
        rep = 0
        while rep < n:
            M = rng.randint(1, 6)
            N = rng.randint(M + 1, 40)
            A = _rand(rng, (N, M))
            if rng.random() < 0.3:
                A = np.vander(np.linspace(-1, 1, N), M, increasing=True)
            b = A @ _rand(rng, (M,), -3, 3) + _rand(rng, (N,)) * rng.choice([0.0, 0.1, 1.0])
            sq = _rand(rng, (N,), 0.2, 3.0) * rng.choice([1.0, 1.0, 1.0e-5, 1.0e4])      # the optimum does not depend on the overall scale of the weights
            sq[np.array([rng.random() < rng.choice([0.0, 0.3]) for _ in range(N)])] = 0.0
            if (sq > 0).sum() < M + 1 or np.linalg.cond(A * sq[:, None]) > 1e4:
                continue
            order = ["acoeff", "chi2", "yfit", "dof", "covar", "var"]
            rng.shuffle(order)          # the attributes are lazy: every order of first access must give the same answers
            yield dict(A=A, b=b, sq=sq, order=order, inp=dict(rep=rep, N=N, M=M, zero_weights=int((sq == 0).sum()), access_order=order))
            rep += 1

    def _check(self, c):
        from pydl.pydlutils.math import computechi2
        A, b, sq = c["A"], c["b"], c["sq"]
        obj = computechi2(b.copy(), sq.copy(), A.copy())
        vals = {}
        for nm in c["order"]:
            vals[nm] = np.array(getattr(obj, nm), copy=True)
        r = type("R", (), vals)
        N, M = A.shape
        bad = []
        ref = np.linalg.lstsq(A * sq[:, None], b * sq, rcond=None)[0]
        scale = max(1.0, np.abs(ref).max())
        if np.shape(r.acoeff) != (M,) or not np.allclose(r.acoeff, ref, rtol=0, atol=1e-7 * scale):
            bad.append(("coefficients_minimise_weighted_chi_square", "acoeff %s, independent solver %s" % (np.round(r.acoeff, 8).tolist(), np.round(ref, 8).tolist())))
        if not np.allclose(r.yfit, A @ np.asarray(r.acoeff), rtol=1e-12, atol=1e-12):
            bad.append(("yfit_is_A_times_coefficients", "max deviation %g" % np.abs(r.yfit - A @ r.acoeff).max()))
        chi2 = float(((sq * (A @ ref - b)) ** 2).sum())
        if not np.isclose(r.chi2, chi2, rtol=1e-6, atol=1e-9):
            bad.append(("chi2_is_weighted_residual_sum", "%r vs %r" % (float(r.chi2), chi2)))
        if int(r.dof) != int((sq > 0).sum()) - M:
            bad.append(("dof_counts_positive_weights_minus_unknowns", "%r for %d positive weights and %d unknowns" % (r.dof, (sq > 0).sum(), M)))
        cov = np.linalg.inv(A.T @ (A * (sq ** 2)[:, None]))
        if not (np.allclose(r.covar, cov, rtol=1e-6, atol=1e-9 * np.abs(cov).max()) and np.allclose(r.var, np.diag(cov), rtol=1e-6, atol=1e-12 * np.abs(cov).max())
                and np.array_equal(np.asarray(r.var), np.diag(np.asarray(r.covar)))):
            bad.append(("covariance_is_inverse_of_AtWA_and_var_its_diagonal", "max deviation %g" % np.abs(np.asarray(r.covar) - cov).max()))
        return bad


@register("C15")
class PComp(NumericJob):
    name = "pcomp"
    target = "pydl.pcomp:pcomp"
    bound = "data matrices of 5..60 rows and 2..7 columns (random, correlated columns), standardize and covariance on/off"
    KINDS = ("eigenvalues_descending", "components_reproduce_the_correlation_or_covariance_matrix", "variance_fractions_sum_to_one_and_match_eigenvalues",
             "derived_equals_data_times_components", "rejects_non_2d_input")
    NQ, NT = 200, 2000

    def _cases(self, rng, n):
        for rep in range(n):
            N, M = rng.randint(5, 60), rng.randint(2, 7)
            mix = _rand(rng, (M, M))
            x = _rand(rng, (N, M)) @ mix + _rand(rng, (M,), -5, 5)
            yield dict(x=x, std=rng.random() < 0.5, cov=rng.random() < 0.5, inp=dict(rep=rep, N=N, M=M))

    def _check(self, c):
        from pydl.pcomp import pcomp
        x, std, cov = c["x"], c["std"], c["cov"]
        p = pcomp(x.copy(), standardize=std, covariance=cov)
        N, M = x.shape
        bad = []
        arr = x
        if std:
            arr = (x - x.mean(axis=0)) / np.sqrt(((x - x.mean(axis=0)) ** 2).mean(axis=0))
        d = arr - arr.mean(axis=0)
        C = d.T @ d / (N - 1)
        if not cov:
            sd = np.sqrt(np.diag(C))
            C = C / np.outer(sd, sd)
        ev = np.asarray(p.eigenvalues)
        if ev.shape != (M,) or (np.diff(ev) > 1e-12 * max(1.0, abs(ev[0]))).any():
            bad.append(("eigenvalues_descending", "%s" % ev.tolist()))
        co = np.asarray(p.coefficients)
        if co.shape != (M, M) or not np.allclose(co @ co.T, C, rtol=1e-8, atol=1e-10 * np.abs(C).max()):
            bad.append(("components_reproduce_the_correlation_or_covariance_matrix", "max deviation %g" % (np.abs(co @ co.T - C).max() if co.shape == (M, M) else -1)))
        ref = np.sort(np.linalg.eigvalsh(C))[::-1]
        var = np.asarray(p.variance)
        if not (np.isclose(var.sum(), 1.0, rtol=1e-10) and np.allclose(var, ref / ref.sum(), rtol=1e-7, atol=1e-12) and np.allclose(ev, ref, rtol=1e-7, atol=1e-12 * abs(ref[0]))):
            bad.append(("variance_fractions_sum_to_one_and_match_eigenvalues", "sum %r" % float(var.sum())))
        if not std and not np.allclose(np.asarray(p.derived), x @ co, rtol=1e-10, atol=1e-10):
            bad.append(("derived_equals_data_times_components", "max deviation %g" % np.abs(np.asarray(p.derived) - x @ co).max()))
        try:
            pcomp(x[:, 0].copy())
            bad.append(("rejects_non_2d_input", "a 1-D array was accepted"))
        except ValueError:
            pass
        return bad


def _hmf_data(rng, nonneg):
    N, Mp, K = rng.randint(6, 14), rng.randint(12, 30), rng.randint(1, 3)
    pix = np.arange(Mp)
    comps = np.array([1.5 + np.sin(pix / rng.uniform(2, 6) + rng.uniform(0, 3)) for _ in range(3)])
    co = _rand(rng, (N, 3), 0.3, 2.0)
    s = co @ comps + _rand(rng, (N, Mp)) * 0.05
    if not nonneg:
        s = s - rng.choice([0.0, 2.0])
    w = _rand(rng, (N, Mp), 5.0, 50.0)
    mask = np.array([[rng.random() < 0.08 for _ in range(Mp)] for _ in range(N)])
    mask[:, mask.sum(axis=0) > N - 3] = False
    w[mask] = 0.0
    if rng.random() < 0.35:          # pixels without any coverage at the ends of the range: dropped by the solver, the rest must behave as before
        w[:, :rng.randint(1, 4)] = 0.0
        w[:, Mp - rng.randint(1, 3):] = 0.0
    return N, Mp, K, s, w


@register("C15")
class HMFIteration(NumericJob):
    name = "hmf_iteration"
    target = "pydl.pydlspec2d.spec1d:HMF.solve, HMF.iterate, HMF.astep, HMF.gstep, HMF.reorder, HMF.normbase"
    bound = ("6..14 spectra of 12..30 pixels, rank-3 signal plus noise, 8% masked pixels (no empty column), K = 1..3, seeds 0 and 1..999 (the global generator re-seeded differently before every run), epsilon none / 0.5, "
             "default mode with 1..4 iterations, non-negative mode with 16 iterations")
    KINDS = ("astep_is_the_exact_optimum_given_g", "gstep_is_the_exact_optimum_given_a", "chi_square_never_increases_over_iterations", "components_have_unit_rms",
             "fixed_seed_gives_identical_results", "nonnegative_mode_keeps_both_factors_non_negative", "callers_arrays_not_modified_in_default_mode")
    NQ, NT = 60, 600

    def _cases(self, rng, n):
        for rep in range(n):
            nonneg = rng.random() < 0.3
            N, Mp, K, s, w = _hmf_data(rng, nonneg)
            yield dict(s=s, w=w, K=K, seed=rng.choice([0, 0, rng.randint(1, 999)]), eps=rng.choice([None, None, 0.5]), nonneg=nonneg, g0=_rand(rng, (K, Mp), 0.2, 2.0), a0=_rand(rng, (N, K), 0.2, 2.0),
                       inp=dict(rep=rep, N=N, M=Mp, K=K, nonnegative=nonneg))

    def _check(self, c):
        import warnings
        from astropy import log as _alog
        _alog.setLevel("ERROR")
        from pydl.pydlspec2d.spec1d import HMF
        s, w, K, seed, eps, nonneg = c["s"], c["w"], c["K"], c["seed"], c["eps"], c["nonneg"]
        bad = []

        def chi2(a, g):
            return float((w * (s - a @ g) ** 2).sum())
        with warnings.catch_warnings():
            warnings.simplefilter("ignore")
            if not nonneg and not (w.sum(axis=0) == 0).any():      # (pixels without coverage are dropped by iterate() before any step is taken)
                # single steps from an arbitrary starting point, no penalty: exact optimum in one factor given the other
                h = HMF(s.copy(), w.copy(), K=K)
                h.g, h.a = c["g0"].copy(), c["a0"].copy()
                b0 = chi2(h.a, h.g)
                a1 = h.astep()
                grad_a = -2.0 * (w * (s - a1 @ h.g)) @ h.g.T
                if not (chi2(a1, h.g) <= b0 * (1 + 1e-10) and np.abs(grad_a).max() <= 1e-6 * max(1.0, b0)):
                    bad.append(("astep_is_the_exact_optimum_given_g", "chi-square %g -> %g, largest gradient component %g" % (b0, chi2(a1, h.g), np.abs(grad_a).max())))
                # against an independent weighted least-squares solution, object by object
                for i in range(s.shape[0]):
                    sw = np.sqrt(w[i])
                    ref = np.linalg.lstsq((h.g * sw).T, s[i] * sw, rcond=None)[0]
                    if not np.allclose(a1[i], ref, rtol=1e-6, atol=1e-8):
                        bad.append(("astep_is_the_exact_optimum_given_g", "object %d: %s, independent solver %s" % (i, a1[i].tolist(), ref.tolist())))
                        break
                h.a = a1
                b1 = chi2(h.a, h.g)
                g1 = h.gstep()
                grad_g = -2.0 * h.a.T @ (w * (s - h.a @ g1))
                if not (chi2(h.a, g1) <= b1 * (1 + 1e-10) and np.abs(grad_g).max() <= 1e-6 * max(1.0, b0)):
                    bad.append(("gstep_is_the_exact_optimum_given_a", "chi-square %g -> %g, largest gradient component %g" % (b1, chi2(h.a, g1), np.abs(grad_g).max())))
            runs = []
            its = (16,) if nonneg else (1, 2, 3, 4)
            for rno, n_iter in enumerate(its + (its[-1],)):
                np.random.seed(1000 + rno)          # the caller's global generator is in a different state before every run: a fixed seed must override it
                s_in, w_in = s.copy(), w.copy()
                h = HMF(s_in, w_in, K=K, n_iter=n_iter, seed=seed, nonnegative=nonneg, epsilon=eps)
                out = h.solve()
                runs.append((out["acoeff"].copy(), out["flux"].copy(), h.badness()))
                if not nonneg and not (np.array_equal(s_in, s) and np.array_equal(w_in, w)):
                    bad.append(("callers_arrays_not_modified_in_default_mode", "spectra or invvar changed in place (n_iter=%d)" % n_iter))
        a, g, _ = runs[-1]
        if g.shape[0] == K and not np.allclose(np.sqrt((g ** 2).mean(axis=1)), 1.0, rtol=1e-10):
            bad.append(("components_have_unit_rms", "rms %s" % np.sqrt((g ** 2).mean(axis=1)).tolist()))
        if not (np.array_equal(runs[-1][0], runs[-2][0]) and np.array_equal(runs[-1][1], runs[-2][1])):
            bad.append(("fixed_seed_gives_identical_results", "two runs with seed %d differ" % seed))
        if nonneg and ((a < 0).any() or (g < 0).any()):
            bad.append(("nonnegative_mode_keeps_both_factors_non_negative", "min a %g, min g %g" % (a.min(), g.min())))
        if not nonneg and eps is None:
            seq = [r[2] for r in runs[:-1]]
            if any(seq[k + 1] > seq[k] * (1 + 1e-9) for k in range(len(seq) - 1)):
                bad.append(("chi_square_never_increases_over_iterations", "badness after 1..4 iterations: %s" % seq))
        return bad


@register("C15")
class PcaSolve(NumericJob):
    name = "pca_solve"
    target = "pydl.pydlspec2d.spec1d:pca_solve"
    bound = "4..9 spectra of 25..60 pixels, rank-3 signal plus noise, 6% masked pixels, nkeep 1..3, niter 2..8, maxiter 0..2 with 1..3 injected outliers"
    KINDS = ("coefficients_are_weighted_projections_on_returned_eigenspectra", "eigenvalues_non_increasing", "usemask_counts_good_spectra_per_pixel", "shapes_of_the_returned_arrays")
    NQ, NT = 60, 600

    def _cases(self, rng, n):
        for rep in range(n):
            nobj, npix = rng.randint(4, 9), rng.randint(25, 60)
            pix = np.arange(npix)
            comps = np.array([1.0 + 0 * pix, np.sin(pix / rng.uniform(3, 8)), np.cos(pix / rng.uniform(2, 5))])
            flux = _rand(rng, (nobj, 3), 0.5, 2.0) @ comps + _rand(rng, (nobj, npix)) * 0.02
            ivar = _rand(rng, (nobj, npix), 100.0, 900.0)
            ivar[np.array([[rng.random() < 0.06 for _ in range(npix)] for _ in range(nobj)])] = 0.0
            ivar[:, 0] = np.maximum(ivar[:, 0], 100.0)
            nkeep = rng.randint(1, 3)
            maxiter = rng.choice([0, 1, 2])
            if maxiter and rng.random() < 0.7:          # a few cosmic-ray-like outliers for the rejection rounds
                for _ in range(rng.randint(1, 3)):
                    flux[rng.randrange(nobj), rng.randrange(1, npix)] += rng.choice([-1, 1]) * rng.uniform(3, 8)
            yield dict(flux=flux, ivar=ivar, nkeep=nkeep, niter=rng.randint(2, 8), maxiter=maxiter, inp=dict(rep=rep, nobj=nobj, npix=npix, nkeep=nkeep))

    def _check(self, c):
        import warnings
        from astropy import log as _alog
        _alog.setLevel("ERROR")
        from pydl.pydlspec2d.spec1d import pca_solve
        flux, ivar, nkeep = c["flux"], c["ivar"], c["nkeep"]
        nobj, npix = flux.shape
        with warnings.catch_warnings():
            warnings.simplefilter("ignore")
            r = pca_solve(flux.copy(), ivar.copy(), nkeep=nkeep, niter=c["niter"], maxiter=c["maxiter"])
        bad = []
        eig, ac, ev, um, om = (np.asarray(r[k]) for k in ("flux", "acoeff", "eigenval", "usemask", "outmask"))
        if eig.shape != (nkeep, npix) or ac.shape != (nobj, nkeep) or ev.shape != (nkeep,) or um.shape != (npix,) or om.shape != (nobj, npix):
            return [("shapes_of_the_returned_arrays", "%s %s %s %s %s" % (eig.shape, ac.shape, ev.shape, um.shape, om.shape))]
        if (np.diff(ev) > 1e-12 * max(1.0, abs(ev[0]))).any():
            bad.append(("eigenvalues_non_increasing", "%s" % ev.tolist()))
        good = (ivar != 0) & (om != 0)
        if not (np.array_equal(um, good.sum(axis=0)) and (om[ivar == 0] == 0).all()):
            bad.append(("usemask_counts_good_spectra_per_pixel", "usemask %s, good spectra per pixel %s" % (um.tolist()[:10], good.sum(axis=0).tolist()[:10])))
        E = eig.astype(float)          # returned as float32: projections agree to single precision
        for i in range(nobj):
            wi = ivar[i] * (om[i] != 0)
            sw = np.sqrt(wi)
            if np.linalg.cond((E * sw).T) > 1e4:
                continue
            ref = np.linalg.lstsq((E * sw).T, flux[i] * sw, rcond=None)[0]
            if not np.allclose(ac[i], ref, rtol=2e-4, atol=2e-4 * np.abs(ref).max()):
                bad.append(("coefficients_are_weighted_projections_on_returned_eigenspectra", "spectrum %d: %s, independent projection %s" % (i, ac[i].tolist(), ref.tolist())))
                break
        return bad
