"""C12 -- Mangle window functions decide point membership exactly as the caps define."""
import itertools
import types
import numpy as np
import z3
from pyvc.harness import FunctionContract, register, JobResult
from pyvc.proxies import SInt, SReal, SBool, SBV, SPyInt, sym_int, sym_real, sym_bool, sym_pyint
from pyvc.engine import eng
from pyvc import arrays as A
from pyvc import spec as S

EXPLANATION = ("is_cap_used bit test, is_in_polygon (AND over used caps among the first n) for any number of caps/points, sign of "
               "cap_distance against 1 - x.p <= cm over reals; window lookup and set_use_caps as bounded stand-ins on the real code.")
UNDECIDED = ["floating-point behaviour exactly on cap boundaries (cap centres and antipodes are exercised natively by polygon_objects_and_readers; "
             "the arccos-NaN defect found there is repaired)",
             "FITS / .ply readers, ManglePolygon constructors: trusted (A5); window_read(balkans) assembly only as a bounded stand-in with the FITS reader replaced by in-memory tables",
             "cm < 0: boundary points (1 - x.p == |cm|) count as inside, following mangle's own convention (closed complement)"]


# ---------------------------------------------------------------------------
@register("C12")
class IsCapUsed(FunctionContract):
    name = "is_cap_used"
    target = "pydl.pydlutils.mangle:is_cap_used"
    level = "C"
    int_mode = "bv"
    assumptions = ["use_caps is a non-negative Python int below 2**63 and 0 <= i < 63 (64-bit model of Python ints with no-overflow obligations)"]

    def inputs(self):
        return dict(use_caps=sym_pyint("use_caps"), i=sym_pyint("i"))

    def requires(self, use_caps, i):
        return S.AND(use_caps >= 0, i >= 0, i < 63)

    def call(self, fn, use_caps, i):
        return fn(use_caps, i)

    def ensures(self, result, use_caps, i):
        if isinstance(use_caps, SBV):
            bit = SBool(z3.Extract(0, 0, z3.LShR(use_caps.z, i.z)) == z3.BitVecVal(1, 1))
            return {"bit_i": S.iff(result, bit)}
        return {"bit_i": bool(result) == bool((use_caps >> i) % 2)}

    def samples(self, rng):
        for _ in range(100):
            yield dict(use_caps=rng.getrandbits(rng.randint(1, 62)), i=rng.randint(0, 62))


# ---------------------------------------------------------------------------
_INCAP = z3.Function("INCAP", z3.IntSort(), z3.IntSort(), z3.BoolSort())     # cap k contains point p (contract of is_in_cap)
_USED = z3.Function("USED", z3.IntSort(), z3.BoolSort())                      # bit k of the polygon's use-mask (contract of is_cap_used)


class _Row:
    def __init__(self, k):
        self.k = k


class _XCaps:
    """p['x']: only row selection x[k, :] is used; the row is passed on to is_in_cap (stubbed by its contract)"""
    _pyvc_symbolic = True          # a contract stand-in: numpy shims pass it through unchanged
    def __getitem__(self, key):
        return _Row(key[0])


class _FitsRow:
    """a FITS polygon row: fields only through ['NCAPS'] etc., no attributes"""
    def __init__(self, d):
        self._d = d

    def __getitem__(self, k):
        return self._d[k]


@register("C12")
class IsInPolygon(FunctionContract):
    name = "is_in_polygon"
    target = "pydl.pydlutils.mangle:is_in_polygon"
    level = "P"
    assumptions = ["is_in_cap and is_cap_used replaced by their contracts (uninterpreted INCAP(k,p), USED(k))", "any number of caps and points"]

    def cases(self, tier):
        return ["object", "fitsrow"]

    def inputs(self):
        return dict(ncaps_poly=sym_int("ncaps_poly"), ncaps_arg=sym_int("ncaps_arg"), npoints=sym_int("npoints"))

    def requires(self, ncaps_poly, ncaps_arg, npoints):
        return S.AND(ncaps_poly >= 0, npoints >= 0)

    def extra_globals(self):
        def is_cap_used(use_caps, i):
            return SBool(_USED(A._zi(i)))

        def is_in_cap(x, cm, points):
            k = A._zi(x.k)
            return A.SArr.from_fn(A.BOOL, points.R, lambda p: _INCAP(k, p))
        return dict(is_cap_used=is_cap_used, is_in_cap=is_in_cap)

    def call(self, fn, ncaps_poly, ncaps_arg, npoints):
        points = A.SArr2.symbolic(A.REAL, npoints.z, 3, "points")
        cm = A.SArr.symbolic(A.REAL, ncaps_poly.z, "cm")
        if self.case == "object":
            poly = types.SimpleNamespace(ncaps=ncaps_poly, use_caps="<use-mask>", x=_XCaps(), cm=cm)
        else:
            poly = _FitsRow({"NCAPS": ncaps_poly, "USE_CAPS": "<use-mask>", "XCAPS": _XCaps(), "CMCAPS": cm})
        return fn(poly, points, ncaps=ncaps_arg)

    def _n_used(self, ncaps_poly, ncaps_arg):
        return S.ite(ncaps_arg > 0, S.ite(ncaps_arg <= ncaps_poly, ncaps_arg, ncaps_poly), ncaps_poly)

    def ensures(self, result, ncaps_poly, ncaps_arg, npoints):
        nu = self._n_used(ncaps_poly, ncaps_arg)
        return {"length": S.size(result) == npoints,
                "inside_iff_inside_every_used_cap_among_first_n": S.forall(0, npoints, lambda p: S.iff(
                    S.el(result, p), S.forall(0, nu, lambda k: S.implies(SBool(_USED(k.z)), SBool(_INCAP(k.z, p.z))))))}

    def loop_specs(self, a):
        npoints = a["npoints"]

        def inv(v):
            return [v.in_polygon.slen() == npoints,
                    S.forall(0, npoints, lambda p: S.iff(S.el(v.in_polygon, p), S.forall(0, v.icap, lambda k: S.implies(
                        SBool(_USED(k.z)), SBool(_INCAP(k.z, p.z))))))]
        return {"range(usencaps)": dict(inv=inv)}

    def samples(self, rng):
        return iter(())


@register("C12")
class IsInPolygonNative(FunctionContract):
    """run-time cross-check + small bounded job of the REAL is_in_polygon with the REAL is_cap_used / is_in_cap on concrete polygons"""
    name = "is_in_polygon_native"
    target = "pydl.pydlutils.mangle:is_in_polygon"
    level = "B"
    bound = "random polygons with 0..4 caps, arbitrary use-masks, positive and negative cm, 1..4 points: native evaluation against the cap definition"

    def cases(self, tier):
        return []

    def requires(self, **a):
        return True

    def call(self, fn, x, cm, use_caps, points, ncaps):
        import pydl.pydlutils.mangle as m
        poly = types.SimpleNamespace(ncaps=len(cm), use_caps=use_caps, x=x, cm=cm)
        return m.is_in_polygon(poly, points, ncaps=ncaps)

    def ensures(self, result, x, cm, use_caps, points, ncaps):
        nu = min(ncaps, len(cm)) if ncaps > 0 else len(cm)
        ok = True
        for p in range(len(points)):
            want = True
            for k in range(nu):
                if (use_caps >> k) & 1:
                    c = 1.0 - float(np.dot(points[p], x[k]))
                    inside = (c <= cm[k] + 1e-12) if cm[k] >= 0 else (c >= abs(cm[k]) - 1e-12)
                    near = abs(c - abs(cm[k])) < 1e-9
                    if near:
                        continue
                    want = want and inside
            if bool(result[p]) != want and not any(abs((1.0 - float(np.dot(points[p], x[k]))) - abs(cm[k])) < 1e-9 for k in range(nu)):
                ok = False
        return {"matches_cap_definition": ok}

    def samples(self, rng):
        def unit():
            v = np.array([rng.gauss(0, 1) for _ in range(3)])
            return v / np.linalg.norm(v)
        for _ in range(300):
            nc = rng.randint(0, 4)
            x = np.array([unit() for _ in range(nc)]).reshape(nc, 3)
            cm = np.array([rng.choice([-1, 1]) * rng.uniform(0.05, 1.9) for _ in range(nc)])
            pts = np.array([unit() for _ in range(rng.randint(1, 4))])
            yield dict(x=x, cm=cm, use_caps=rng.getrandbits(nc) if nc else 0, points=pts, ncaps=rng.choice([0, 0, 1, 2, 5]))


# ---------------------------------------------------------------------------
@register("C12")
class CapDistanceSign(FunctionContract):
    name = "cap_distance_sign"
    target = "pydl.pydlutils.mangle:cap_distance"
    level = "C"
    nl_mode = "nra"
    assumptions = ["A1 floats as reals", "T-arccos: strictly decreasing bijection [-1,1] -> [0,PI] (ground monotonicity instances), degrees = *180/PI",
                   "unit vectors: |x.p| <= 1 (precondition)", "one generic point (row-wise numpy uniformity, A3); Cartesian input"]

    def inputs(self):
        x = np.empty((3,), dtype=object)
        pts = np.empty((1, 3), dtype=object)
        for k in range(3):
            x[k] = sym_real("x%d" % k)
            pts[0, k] = sym_real("p%d" % k)
        return dict(x=x, cm=sym_real("cm"), points=pts)

    def _dot(self, x, points):
        return points[0, 0] * x[0] + points[0, 1] * x[1] + points[0, 2] * x[2]

    def requires(self, x, cm, points):
        d = self._dot(x, points)
        return S.AND(d >= -1, d <= 1, cm >= -2, cm <= 2)

    def call(self, fn, x, cm, points):
        return fn(x, cm, points)

    def ensures(self, result, x, cm, points):
        d = self._dot(x, points)
        c = 1 - d
        r = result[0]
        if S.is_sym(cm):
            inside = S.ite(cm >= 0, c <= cm, c >= -cm)
        else:
            inside = (c <= cm) if cm >= 0 else (c >= -cm)
            if abs(c - abs(cm)) < 1e-9:
                return {"nonneg_iff_inside": True}
        return {"nonneg_iff_inside": S.iff(r >= 0, inside)}

    def samples(self, rng):
        for _ in range(200):
            def unit():
                v = np.array([rng.gauss(0, 1) for _ in range(3)])
                return v / np.linalg.norm(v)
            yield dict(x=unit(), cm=rng.choice([-1, 1]) * rng.uniform(0.01, 1.99), points=unit().reshape(1, 3))


# ---------------------------------------------------------------------------
@register("C12")
class IsInWindow(FunctionContract):
    """first-match lookup over the polygon list (bounded stand-in: every membership relation polygons x points)"""
    name = "is_in_window"
    target = "pydl.pydlutils.mangle:is_in_window"
    level = "B"
    bound = "0..3 polygons x 1..3 points (quick; 4 x 3 thorough): every membership relation; is_in_polygon replaced by its contract"
    max_paths = 50000

    def cases(self, tier):
        mp = 3 if tier == "quick" else 4
        return [(npoly, npts) for npoly in range(0, mp + 1) for npts in range(1, 4)]

    def inputs(self):
        npoly, npts = self.case
        return dict(M=[[sym_bool("m_%d_%d" % (q, p)) for p in range(npts)] for q in range(npoly)], npts=npts)

    def _stub(self, M):
        def is_in_polygon(polygon, points, ncaps=0):
            return np.array([bool(M[polygon][int(row[0])]) for row in points], dtype=bool)
        return is_in_polygon

    def call(self, fn, M, npts):
        points = np.arange(npts).reshape(npts, 1)
        if hasattr(self, "_L") or True:
            g = getattr(fn, "__globals__", None)
            if g is not None and g.get("__pv") is not None:
                g["is_in_polygon"] = self._stub(M)
                return fn(list(range(len(M))), points)
        from unittest import mock
        import pydl.pydlutils.mangle as m
        with mock.patch.object(m, "is_in_polygon", self._stub(M)):
            return m.is_in_window(list(range(len(M))), points)

    def ensures(self, result, M, npts):
        inside, idx = result
        ok = True
        for p in range(npts):
            first = -1
            for q in range(len(M)):
                if bool(M[q][p]):
                    first = q
                    break
            ok = ok and int(idx[p]) == first and bool(inside[p]) == (first >= 0)
        return {"first_containing_polygon_or_minus_one": ok, "lengths": len(idx) == npts and len(inside) == npts}

    def samples(self, rng):
        for _ in range(100):
            npoly, npts = rng.randint(0, 5), rng.randint(1, 5)
            yield dict(M=[[rng.random() < 0.3 for _ in range(npts)] for _ in range(npoly)], npts=npts)


class _Q:
    """a float quantity of which the code only asks `q < tolerance`: the answer is a symbolic predicate"""
    def __init__(self, b):
        self.b = b

    def __lt__(self, other):
        return self.b


class _XRow:
    def __init__(self, same, i):
        self.same, self.i = same, i

    def __sub__(self, o):
        return _XDiff(self.same[self.i][o.i])


class _XDiff:
    def __init__(self, b):
        self.b = b

    def __pow__(self, k):
        return self

    def sum(self, axis=None, dtype=None, out=None, **kw):
        return _Q(self.b)


class _XArr:
    def __init__(self, same):
        self.same = same

    def __getitem__(self, key):
        return _XRow(self.same, key[0])


class _Cm:
    def __init__(self, arr, i):
        self.arr, self.i = arr, i

    def __sub__(self, o):
        return _CmDiff(self.arr.samecm[self.i][o.i])

    def __add__(self, o):
        return _Q(self.arr.negsum[self.i][o.i])


class _CmDiff:
    def __init__(self, b):
        self.b = b

    def __abs__(self):
        return _Q(self.b)


class _CmArr:
    def __init__(self, samecm, negsum):
        self.samecm, self.negsum = samecm, negsum

    def __getitem__(self, i):
        return _Cm(self, i)


class _IdxSeq:
    """index_list of symbolic length: only len() and item access are used by the loop `for i in index_list`"""
    _pyvc_symbolic = True

    def __init__(self, n, arr):
        self.n, self.arr = n, arr

    def slen(self):
        return self.n

    def __getitem__(self, k):
        return SPyInt(z3.Select(self.arr, A._zi(k)))


@register("C12")
class SetUseCapsSelectionAllLengths(FunctionContract):
    """set_use_caps, selection loop, for an index list of ANY length (allow_doubles=True so that only the selection loop runs):
    bit b of the result is set iff (add and bit b of the previous mask) or b occurs in index_list -- stated for one generic bit b
    (a fixed but arbitrary input), which is the universally quantified statement; the loop is cut at that invariant."""
    name = "set_use_caps_selection_all_lengths"
    target = "pydl.pydlutils.mangle:set_use_caps"
    level = "P"
    int_mode = "bv"
    assumptions = ["use-mask and indices are Python ints: previous mask in [0, 2**63), every index in [0, 63) (64-bit model with no-lost-bit obligation on 1 << i)",
                   "allow_doubles=True (the duplicate-removal loops are covered by the bounded job set_use_caps)",
                   "generic bit b in [0, 63): the clause for one arbitrary fixed b is the clause for all b"]

    def cases(self, tier):
        return ["add", "fresh"]

    def inputs(self):
        return dict(n=sym_int("n_index"), old=sym_pyint("old"), b=sym_pyint("b"), idx=z3.Array("index_list", z3.IntSort(), z3.BitVecSort(64)))

    def requires(self, n, old, b, idx):
        if isinstance(old, SBV):
            q = z3.Int("q_req")
            return S.AND(n >= 0, old >= 0, b >= 0, b < 63,
                         SBool(z3.ForAll([q], z3.Implies(z3.And(q >= 0, q < n.z), z3.And(z3.Select(idx, q) >= 0, z3.Select(idx, q) < 63)),
                                         patterns=[z3.Select(idx, q)])))
        return old >= 0 and 0 <= b < 63 and all(0 <= k < 63 for k in idx)

    @staticmethod
    def _bit(v, b):
        if isinstance(b, SBV) and not isinstance(v, SBV):
            v = SPyInt(z3.BitVecVal(int(v), 64))
        if isinstance(v, SBV):
            return SBool(z3.Extract(0, 0, z3.LShR(v.z, b.z)) == z3.BitVecVal(1, 1))
        return bool((int(v) >> int(b)) & 1)

    def _want(self, upto, old, b, idx):
        add = self.case == "add"
        if isinstance(old, SBV):
            occurs = S.exists(0, upto, lambda k: SBool(z3.Select(idx, k.z) == b.z))
            return S.OR(self._bit(old, b), occurs) if add else occurs
        return (add and self._bit(old, b)) or any(int(k) == int(b) for k in list(idx)[:int(upto)])

    def call(self, fn, n, old, b, idx):
        seq = _IdxSeq(n, idx) if isinstance(old, SBV) else list(idx)
        poly = types.SimpleNamespace(ncaps=0, x=None, cm=None, use_caps=old)
        r = fn(poly, seq, add=(self.case == "add"), allow_doubles=True)
        return (r, poly.use_caps)

    def ensures(self, result, n, old, b, idx):
        ret, stored = result
        if isinstance(old, SBV):
            return {"returns_stored_mask": SBool(ret.z == stored.z),
                    "bit_b_iff_kept_or_listed": S.iff(self._bit(stored, b), self._want(n, old, b, idx)),
                    "no_bit_beyond_62": S.AND(stored >= 0)}
        return {"returns_stored_mask": ret == stored,
                "bit_b_iff_kept_or_listed": self._bit(stored, b) == self._want(n, old, b, idx),
                "no_bit_beyond_62": 0 <= stored < 2 ** 63}

    def loop_specs(self, a):
        old, b, idx = a["old"], a["b"], a["idx"]

        def inv(v):
            u = v.polygon.use_caps
            ix = next(val for nm, val in vars(v).items() if nm.startswith("__ix"))   # position in index_list (the only cut sequence loop)
            return [u >= 0, S.iff(self._bit(u, b), self._want(ix, old, b, idx))]
        return {"index_list": dict(inv=inv, fresh={"polygon.use_caps": lambda obj, v: sym_pyint("use_caps")})}

    def samples(self, rng):
        for _ in range(200):
            L = rng.randint(0, 6)
            yield dict(n=L, old=rng.getrandbits(rng.randint(1, 62)), b=rng.randint(0, 62), idx=[rng.randint(0, 62) for _ in range(L)])


@register("C12")
class SetUseCaps(FunctionContract):
    """set_use_caps: exactly the listed bits (plus the old ones with add=True), minus later duplicates of a selected cap"""
    name = "set_use_caps"
    target = "pydl.pydlutils.mangle:set_use_caps"
    level = "B"
    bound = "polygons with 1..3 caps, every index list of length 0..2 (3 thorough) over the caps, symbolic previous use-mask, add / allow_doubles / allow_neg_doubles; the three float tests between caps i,j (same direction, same cm, cm sum below tol) are arbitrary symmetric predicates"
    max_paths = 20000
    budget_s = 240
    job_budget_s = 500
    assumptions = ["A1 floats as reals", "64-bit model of the Python int use-mask with no-overflow obligations"]

    def cases(self, tier):
        out = []
        for nc in (1, 2, 3):
            for L in range(0, 3 if tier == "quick" else 4):
                for lst in itertools.product(range(nc), repeat=L):
                    for flags in itertools.product((False, True), repeat=3):
                        if nc == 3 and tier == "quick" and L == 2 and lst[0] > lst[1]:
                            continue
                        out.append((nc, lst, flags))
        return out

    def case_label(self):
        nc, lst, flags = self.case
        return "[ncaps=%d,add=%s,doubles=%s,neg=%s]" % (nc, flags[0], flags[1], flags[2])

    def inputs(self):
        nc, lst, (add, dbl, neg) = self.case
        samex = [[None] * nc for _ in range(nc)]
        samecm = [[None] * nc for _ in range(nc)]
        negsum = [[None] * nc for _ in range(nc)]
        for i in range(nc):
            for j in range(i, nc):
                samex[i][j] = samex[j][i] = sym_bool("samex_%d_%d" % (i, j))
                samecm[i][j] = samecm[j][i] = sym_bool("samecm_%d_%d" % (i, j))
                negsum[i][j] = negsum[j][i] = sym_bool("negsum_%d_%d" % (i, j))
        return dict(geom=dict(nc=nc, samex=samex, samecm=samecm, negsum=negsum), old=sym_pyint("old"), index_list=list(lst), add=add,
                    allow_doubles=dbl, allow_neg_doubles=neg)

    def requires(self, geom, old, index_list, add, allow_doubles, allow_neg_doubles):
        return S.AND(old >= 0, old < 2 ** geom["nc"])

    def call(self, fn, geom, old, index_list, add, allow_doubles, allow_neg_doubles):
        nc = geom["nc"]
        if "x" in geom:
            x, cm = geom["x"], geom["cm"]
        else:
            x, cm = _XArr(geom["samex"]), _CmArr(geom["samecm"], geom["negsum"])
        poly = types.SimpleNamespace(ncaps=nc, x=x, cm=cm, use_caps=old)
        r = fn(poly, list(index_list), add=add, tol=1.0e-10, allow_doubles=allow_doubles, allow_neg_doubles=allow_neg_doubles)
        return (r, poly.use_caps)

    def ensures(self, result, geom, old, index_list, add, allow_doubles, allow_neg_doubles):
        ret, stored = result
        nc = geom["nc"]
        tol = 1.0e-10

        def bit(v, k):
            if isinstance(v, SBV):
                return bool(SBool(z3.Extract(k, k, v.z) == z3.BitVecVal(1, 1)))
            return bool((int(v) >> k) & 1)

        def dup(i, j):
            if "x" in geom:
                x, cm = geom["x"], geom["cm"]
                if not float(np.sum((x[i] - x[j]) ** 2)) < tol ** 2:
                    return False
                return abs(cm[i] - cm[j]) < tol or ((cm[i] + cm[j]) < tol and not allow_neg_doubles)
            if not bool(geom["samex"][i][j]):
                return False
            return bool(geom["samecm"][i][j]) or (bool(geom["negsum"][i][j]) and not allow_neg_doubles)
        want = [(add and bit(old, k)) or (k in index_list) for k in range(nc)]
        if not allow_doubles:
            for i in range(nc):
                if want[i]:
                    for j in range(i + 1, nc):
                        if want[j] and dup(i, j):
                            want[j] = False
        got = [bit(stored, k) for k in range(nc)]
        if isinstance(stored, SBV):
            hi_clear = bool(SBool(z3.LShR(stored.z, z3.BitVecVal(nc, 64)) == 0))
        else:
            hi_clear = (int(stored) >> nc) == 0
        same_ret = bool(ret == stored)
        return {"exactly_the_selected_bits_minus_later_duplicates": got == want, "no_other_bit": hi_clear, "returns_stored_mask": same_ret}

    def samples(self, rng):
        for _ in range(200):
            nc = rng.randint(1, 4)
            base = [np.array([0.0, 0.0, 1.0]), np.array([0.0, 1.0, 0.0]), np.array([1.0, 0.0, 0.0])]
            x = np.array([base[rng.randint(0, 2)] for _ in range(nc)])
            cm = np.array([rng.choice([1.0, 1.0, -1.0, 0.5]) for _ in range(nc)])
            yield dict(geom=dict(nc=nc, x=x, cm=cm), old=rng.getrandbits(nc), index_list=[rng.randint(0, nc - 1) for _ in range(rng.randint(0, 3))],
                       add=rng.random() < 0.5, allow_doubles=rng.random() < 0.3, allow_neg_doubles=rng.random() < 0.3)


# ---------------------------------------------------------------------------
# window_read(balkans=True): polygons assembled from the polygon table (blist) and the cap table (bcaps); bounded stand-in
# ---------------------------------------------------------------------------
from pyvc.numeric import NumericJob as _NumericJob


@register("C12")
class WindowReadBalkans(_NumericJob):
    name = "window_read_balkans"
    target = "pydl.photoop.window:window_read"
    bound = ("1..5 polygons of 1..4 caps, cap tables of up to 24 rows, ICAP offsets in storage order / permuted / with gaps / shared between polygons; "
             "Table.read replaced by in-memory tables (FITS reader trusted); 8 probe points per case")
    KINDS = ("each_polygon_gets_the_caps_its_ICAP_and_NCAPS_select", "scalar_columns_copied_and_all_caps_used",
             "lookup_agrees_with_polygons_built_directly_from_the_tables", "only_requested_tables_returned")
    NQ, NT = 150, 1500

    def _cases(self, rng, n):
        from astropy.table import Table
        for rep in range(n):
            npoly = rng.randint(1, 5)
            ncaps = [rng.randint(1, 4) for _ in range(npoly)]
            layout = rng.choice(["in_order", "permuted", "gaps", "shared"])
            order = list(range(npoly))
            if layout != "in_order":
                rng.shuffle(order)
            icap = [0] * npoly
            pos = 0
            for k in order:
                if layout == "gaps":
                    pos += rng.randint(0, 2)
                icap[k] = pos
                pos += ncaps[k]
            if layout == "shared" and npoly > 1:
                a, b = rng.sample(range(npoly), 2)
                icap[a] = icap[b]
            total = max(i + m for i, m in zip(icap, ncaps)) + rng.randint(0, 2)
            X = np.array([[rng.gauss(0, 1) for _ in range(3)] for _ in range(total)])
            X /= np.sqrt((X ** 2).sum(axis=1))[:, None]
            CM = np.array([rng.choice([-1, 1]) * rng.uniform(0.2, 1.8) for _ in range(total)])
            bl = Table()
            bl["IPRIMARY"] = np.array([rng.randint(0, 900) for _ in range(npoly)], dtype=np.int32)
            bl["IBINDX"] = np.array([rng.randint(0, 900) for _ in range(npoly)], dtype=np.int32)
            bl["ICAP"] = np.array(icap, dtype=np.int32)
            bl["NCAPS"] = np.array(ncaps, dtype=np.int32)
            bl["WEIGHT"] = np.array([rng.uniform(0, 1) for _ in range(npoly)])
            bl["STR"] = np.array([rng.uniform(0, 0.1) for _ in range(npoly)])
            bc = Table()
            bc["X"] = X
            bc["CM"] = CM
            pts = np.array([[rng.gauss(0, 1) for _ in range(3)] for _ in range(8)])
            pts /= np.sqrt((pts ** 2).sum(axis=1))[:, None]
            yield dict(bl=bl, bc=bc, pts=pts, want=(rng.random() < 0.5, rng.random() < 0.5),
                       inp=dict(rep=rep, layout=layout, ICAP=icap, NCAPS=ncaps, cap_rows=total))

    def _check(self, c):
        import os
        from unittest import mock
        import pydl.photoop.window as W
        import pydl.pydlutils.mangle as M
        bl, bc, pts = c["bl"], c["bc"], c["pts"]
        X0, CM0 = np.array(bc["X"]), np.array(bc["CM"])

        def reader(fn, hdu=1):
            base = os.path.basename(fn)
            if base == "window_blist.fits":
                return bl.copy()
            if base == "window_bcaps.fits":
                return bc.copy()
            raise IOError(fn)
        wb, wc = c["want"]
        with mock.patch.dict(os.environ, {"PHOTO_RESOLVE": "/nonexistent"}), mock.patch.object(W.Table, "read", staticmethod(reader)):
            r = W.window_read(balkans=True, blist=wb, bcaps=wc)
        bad = []
        if set(r) != {"balkans"} | ({"blist"} if wb else set()) | ({"bcaps"} if wc else set()):
            bad.append(("only_requested_tables_returned", "keys %s for blist=%s bcaps=%s" % (sorted(r), wb, wc)))
        bk = r["balkans"]
        if len(bk) != len(bl):
            return bad + [("each_polygon_gets_the_caps_its_ICAP_and_NCAPS_select", "%d polygons for %d rows" % (len(bk), len(bl)))]
        ref = M.PolygonList()
        for k in range(len(bl)):
            i0, m = int(bl["ICAP"][k]), int(bl["NCAPS"][k])
            if not (np.array_equal(np.asarray(bk[k]["XCAPS"])[:m], X0[i0:i0 + m]) and np.array_equal(np.asarray(bk[k]["CMCAPS"])[:m], CM0[i0:i0 + m])):
                bad.append(("each_polygon_gets_the_caps_its_ICAP_and_NCAPS_select", "polygon %d (ICAP %d, NCAPS %d) carries other caps" % (k, i0, m)))
            if not (int(bk[k]["NCAPS"]) == m and int(bk[k]["USE_CAPS"]) == 2 ** m - 1 and int(bk[k]["IFIELD"]) == int(bl["IPRIMARY"][k])
                    and int(bk[k]["PIXEL"]) == int(bl["IBINDX"][k]) and float(bk[k]["WEIGHT"]) == float(bl["WEIGHT"][k]) and float(bk[k]["STR"]) == float(bl["STR"][k])):
                bad.append(("scalar_columns_copied_and_all_caps_used", "polygon %d" % k))
            ref.append(M.ManglePolygon(x=X0[i0:i0 + m].copy(), cm=CM0[i0:i0 + m].copy()))
        in_r, ix_r = M.is_in_window(ref, pts)
        # independent evaluation of the definition: first polygon all of whose caps contain the point
        exp = []
        for p in pts:
            hit = -1
            for k in range(len(bl)):
                i0, m = int(bl["ICAP"][k]), int(bl["NCAPS"][k])
                if all(((1.0 - X0[j] @ p) <= CM0[j]) if CM0[j] >= 0 else ((1.0 - X0[j] @ p) >= -CM0[j]) for j in range(i0, i0 + m)):
                    hit = k
                    break
            exp.append(hit)
        in_b, ix_b = M.is_in_window(bk, pts)
        conv = M.PolygonList([M.ManglePolygon(bk[k]) for k in range(len(bk))])
        in_c, ix_c = M.is_in_window(conv, pts)
        for lab, ix, inn in (("balkans", ix_b, in_b), ("converted balkans", ix_c, in_c), ("direct polygons", ix_r, in_r)):
            if list(np.asarray(ix)) != exp or list(np.asarray(inn)) != [e >= 0 for e in exp]:
                bad.append(("lookup_agrees_with_polygons_built_directly_from_the_tables", "%s give %s, the cap tables define %s" % (lab, list(np.asarray(ix)), exp)))
        return bad


# ---------------------------------------------------------------------------
# polygon objects over a sequence of mask changes, and the same polygons through the .ply and FITS readers (bounded stand-in)
# ---------------------------------------------------------------------------
def _inside(x, cm, use, p):
    """definition: p is in the polygon iff it is inside every used cap (cm >= 0: 1 - x.p <= cm; cm < 0: 1 - x.p >= |cm|)"""
    for k in range(len(cm)):
        if (use >> k) & 1:
            d = 1.0 - float(np.dot(x[k], p))
            if (cm[k] >= 0 and not d <= cm[k]) or (cm[k] < 0 and not d >= -cm[k]):
                return False
    return True


@register("C12")
class PolygonObjectsAndReaders(_NumericJob):
    name = "polygon_objects_and_readers"
    target = "pydl.pydlutils.mangle:ManglePolygon, is_in_polygon, is_in_window, set_use_caps, read_mangle_polygons, read_fits_polygons, FITS_polygon"
    bound = ("1..4 polygons of 1..6 caps (cap sizes from arcseconds to hemispheres, negative cm, duplicate caps), 12 probe points per case (RA/Dec and "
             "Cartesian), membership asked again after every one of 3 changes of use_caps (set_use_caps with add / allow_doubles, or direct assignment), "
             "with and without ncaps; the same polygons written to a Mangle text file (%.17g numbers, exponent notation for small caps) and to a FITS polygon table and read back")
    KINDS = ("membership_follows_the_current_use_caps", "window_lookup_first_containing_polygon", "text_and_fits_files_give_the_same_polygons_and_lookup")
    NQ, NT = 60, 600

    def _cases(self, rng, n):
        for rep in range(n):
            polys = []
            for _ in range(rng.randint(1, 4)):
                nc = rng.randint(1, 6)
                x = np.array([[rng.gauss(0, 1) for _ in range(3)] for _ in range(nc)])
                x /= np.sqrt((x ** 2).sum(axis=1))[:, None]
                cm = np.array([rng.choice([-1, 1, 1]) * rng.choice([rng.uniform(0.3, 1.9), rng.uniform(1e-3, 0.2), 10 ** rng.uniform(-10, -4)]) for _ in range(nc)])
                if nc > 1 and rng.random() < 0.3:
                    x[1], cm[1] = x[0], cm[0] * rng.choice([1, -1])        # a duplicate (or sign-flipped duplicate) cap
                polys.append((x, cm))
            pts = np.array([[rng.gauss(0, 1) for _ in range(3)] for _ in range(12)])
            pts /= np.sqrt((pts ** 2).sum(axis=1))[:, None]
            for k, (x, cm) in enumerate(polys):           # some probes inside small caps
                pts[k] = x[0] if cm[0] > 0 else -x[0]
            yield dict(polys=polys, pts=pts, seed=rng.randrange(10 ** 6), inp=dict(rep=rep, npoly=len(polys), caps=[len(c[1]) for c in polys]))

    def _check(self, c):
        import os
        import random
        import tempfile
        import warnings
        from astropy.io import fits
        import pydl.pydlutils.mangle as M
        rng = random.Random(c["seed"])
        pts = c["pts"]
        radec = M.x_to_angles(pts, latitude=True)
        bad = []
        objs = [M.ManglePolygon(x=x.copy(), cm=cm.copy(), id=k, pixel=k, weight=1.0) for k, (x, cm) in enumerate(c["polys"])]

        def ask(label):
            for k, (x, cm) in enumerate(c["polys"]):
                use = int(objs[k].use_caps)
                for ncaps in (0, rng.randint(1, len(cm))):
                    eff = use if ncaps == 0 else use & ((1 << ncaps) - 1)
                    want = [_inside(x, cm, eff, p) for p in pts]
                    got = list(np.asarray(M.is_in_polygon(objs[k], pts, ncaps=ncaps)))
                    if got != want:
                        return "%s: polygon %d use_caps=%s ncaps=%d: got %s, the caps say %s" % (label, k, bin(use), ncaps, got, want)
            exp = []
            for p in pts:
                exp.append(next((k for k, (x, cm) in enumerate(c["polys"]) if _inside(x, cm, int(objs[k].use_caps), p)), -1))
            for form in (pts, radec):
                ins, idx = M.is_in_window(M.PolygonList(objs), form)
                tol_ok = list(np.asarray(idx)) == exp and list(np.asarray(ins)) == [e >= 0 for e in exp]
                if not tol_ok and form is pts:
                    return "W%s: window lookup %s, expected %s" % (label, list(np.asarray(idx)), exp)
            return None
        msg = ask("initial")
        for step in range(3):
            if msg:
                break
            for k, (x, cm) in enumerate(c["polys"]):
                how = rng.choice(["set", "set_add", "assign"])
                nc = len(cm)
                if how == "assign":
                    objs[k].use_caps = rng.randrange(0, 1 << nc)
                else:
                    M.set_use_caps(objs[k], rng.sample(range(nc), rng.randint(0, nc)), add=(how == "set_add"), allow_doubles=rng.random() < 0.5,
                                   allow_neg_doubles=rng.random() < 0.5)
            msg = ask("after change %d of use_caps" % (step + 1))
        if msg:
            bad.append(("window_lookup_first_containing_polygon" if msg.startswith("W") else "membership_follows_the_current_use_caps", msg))
        # the same polygons (all caps in use) through the two file formats
        fresh = [M.ManglePolygon(x=x.copy(), cm=cm.copy(), id=k, pixel=k, weight=1.0) for k, (x, cm) in enumerate(c["polys"])]
        with tempfile.TemporaryDirectory() as tmp, warnings.catch_warnings():
            warnings.simplefilter("ignore")
            ply = os.path.join(tmp, "p.ply")
            with open(ply, "w") as f:
                f.write("%d polygons\n" % len(fresh))
                for k, (x, cm) in enumerate(c["polys"]):
                    f.write("polygon %d ( %d caps, 1 weight, 0 pixel, 0.5 str):\n" % (k, len(cm)))
                    for j in range(len(cm)):
                        f.write(" %.17g %.17g %.17g %.17g\n" % (x[j, 0], x[j, 1], x[j, 2], cm[j]))
            fromply = M.read_mangle_polygons(ply)
            mc = max(len(cm) for x, cm in c["polys"])
            n = len(fresh)
            xc = np.zeros((n, mc, 3))
            cc = np.zeros((n, mc))
            for k, (x, cm) in enumerate(c["polys"]):
                xc[k, :len(cm)] = x
                cc[k, :len(cm)] = cm
            # use-masks with holes in the FITS table (a polygon whose caps are not all in use)
            fmask = [rng.choice([(1 << len(cm)) - 1, rng.randrange(0, 1 << len(cm)), ((1 << len(cm)) - 1) & ~1]) for x, cm in c["polys"]]
            cols = [fits.Column(name="XCAPS", format="%dD" % (3 * mc), dim="(3,%d)" % mc, array=xc), fits.Column(name="CMCAPS", format="%dD" % mc, array=cc),
                    fits.Column(name="NCAPS", format="J", array=np.array([len(cm) for x, cm in c["polys"]])), fits.Column(name="WEIGHT", format="D", array=np.ones(n)),
                    fits.Column(name="PIXEL", format="J", array=np.arange(n)), fits.Column(name="STR", format="D", array=np.full(n, 0.5)),
                    fits.Column(name="USE_CAPS", format="K", array=np.array(fmask))]
            ff = os.path.join(tmp, "p.fits")
            fits.BinTableHDU.from_columns(cols).writeto(ff)
            fromfits = M.read_fits_polygons(ff)
            fromfits_conv = M.read_fits_polygons(ff, convert=True)
            exp_all = [next((k for k, (x, cm) in enumerate(c["polys"]) if _inside(x, cm, (1 << len(cm)) - 1, p)), -1) for p in pts]
            exp_msk = [next((k for k, (x, cm) in enumerate(c["polys"]) if _inside(x, cm, fmask[k], p)), -1) for p in pts]
            for label, src in (("objects", M.PolygonList(fresh)), ("Mangle text file", fromply), ("FITS table", fromfits), ("FITS table converted", fromfits_conv)):
                exp = exp_msk if label.startswith("FITS") else exp_all
                if len(src) != n:
                    bad.append(("text_and_fits_files_give_the_same_polygons_and_lookup", "%s: %d polygons for %d written" % (label, len(src), n)))
                    break
                if label == "Mangle text file":
                    for k, (x, cm) in enumerate(c["polys"]):
                        if not (np.array_equal(np.asarray(src[k].x), x) and np.array_equal(np.asarray(src[k].cm), cm)):
                            bad.append(("text_and_fits_files_give_the_same_polygons_and_lookup", "polygon %d read from the text file: cm %s, written %s" % (k, np.asarray(src[k].cm).tolist(), cm.tolist())))
                            break
                ins, idx = M.is_in_window(src, pts)
                if list(np.asarray(idx)) != exp:
                    bad.append(("text_and_fits_files_give_the_same_polygons_and_lookup", "%s: lookup %s, the caps define %s" % (label, list(np.asarray(idx)), exp)))
                    break
        return bad


# ---------------------------------------------------------------------------
# is_in_window for any number of polygons and points: loop cut with the "first containing polygon so far" invariant (level P)
# ---------------------------------------------------------------------------
_MEMB = z3.Function("INPOLY", z3.IntSort(), z3.IntSort(), z3.BoolSort())      # INPOLY(k, q): point q lies in polygon k (contract of is_in_polygon)


class _PolyList:
    """the polygon list: only len() and indexing are used; element k is a token carrying k"""
    _pyvc_symbolic = True

    def __init__(self, n):
        self.n = n

    def __len__(self):
        raise TypeError("symbolic length: use s_len")

    def slen(self):
        return self.n

    def __getitem__(self, k):
        return types.SimpleNamespace(k=k)


class _Points:
    """the point array: .shape and row selection by an index array (the selection is handed to is_in_polygon, stubbed by its contract)"""
    _pyvc_symbolic = True

    def __init__(self, n):
        self.shape = (n, 3)

    def __getitem__(self, idx):
        return types.SimpleNamespace(idx=idx)


def _first_upto(inpoly_q, q, c):
    """in_polygon[q] is the first polygon k < c containing point q, or -1"""
    v = inpoly_q
    return S.OR(S.AND(v == -1, S.forall(0, c, lambda k: S.NOT(SBool(_MEMB(k.z, A._zi(q)))))),
                S.AND(v >= 0, v < c, SBool(_MEMB(A._zi(v), A._zi(q))), S.forall(0, v, lambda k: S.NOT(SBool(_MEMB(k.z, A._zi(q)))))))


@register("C12")
class IsInWindowAllSizes(FunctionContract):
    name = "is_in_window_all_sizes"
    target = "pydl.pydlutils.mangle:is_in_window"
    level = "P"
    int_mode = "math"
    assumptions = ["is_in_polygon replaced by its contract: element j of its result is INPOLY(k, index of the j-th selected point) (uninterpreted membership relation)",
                   "int32 polygon indices as mathematical integers (fewer than 2**31 polygons)", "T-nonzero", "any number of polygons and points"]
    max_paths = 200

    def inputs(self):
        return dict(npoly=sym_int("npoly"), npoints=sym_int("npoints"))

    def requires(self, npoly, npoints):
        return S.AND(npoly >= 0, npoints >= 0)

    def extra_globals(self):
        def is_in_polygon(polygon, points, ncaps=0):
            k = A._zi(polygon.k)
            idx = points.idx
            return A.SArr.from_fn(A.BOOL, idx.n, lambda j: _MEMB(k, A._as_int(idx, j)))
        return dict(is_in_polygon=is_in_polygon)

    def call(self, fn, npoly, npoints):
        return fn(_PolyList(npoly), _Points(npoints))

    def ensures(self, result, npoly, npoints):
        inside, idx = result
        return {"lengths": S.AND(S.size(idx) == npoints, S.size(inside) == npoints),
                "first_containing_polygon_or_minus_one": S.forall(0, npoints, lambda q: _first_upto(S.el(idx, q), q, npoly)),
                "inside_iff_some_polygon_contains": S.forall(0, npoints, lambda q: S.iff(S.el(inside, q), S.el(idx, q) >= 0))}

    def loop_specs(self, a):
        npoly, npoints = a["npoly"], a["npoints"]

        def inv(v):
            return [v.in_polygon.slen() == npoints, v.curr_polygon >= 0, v.curr_polygon <= npoly,
                    S.forall(0, npoints, lambda q: _first_upto(S.el(v.in_polygon, q), q, v.curr_polygon))]
        return {"curr_polygon < npoly": dict(inv=inv)}

    def samples(self, rng):
        return iter(())
