"""C20 -- a failing pipeline call leaves the process environment as it found it.

Frame mode (pyvc/frame.py): the real ASTs of window_score and template_input (+ template_metadata,
inlined because it writes the environment) are interpreted over the ghost state `os.environ` with
exceptional control flow; every statement containing a call / subscript / attribute / operator may raise.
"""
import ast
import contextlib
import importlib
import json
import os
import sys
import tempfile
import time
import traceback

from pyvc.harness import register, JobResult
from pyvc import frame

EXPLANATION = ("Exceptional postcondition `environment == old(environment)` at every normal and exceptional exit, for both "
               "initial states of every touched variable; collaborators are environment-neutral by the env.writers scan.")
UNDECIDED = []

ENTRY_POINTS = [("pydl.photoop.window", "window_score"), ("pydl.pydlspec2d.spec1d", "template_input")]


class InjectedFault(Exception):
    pass


def _obligation(name, ok, note="", inputs=None):
    d = dict(name=name, path=0, status="unsat" if ok else "sat", secs=0.0, note=note, backend="frame", size=0)
    if not ok:
        d["inputs"] = inputs
        d["model"] = note
        d["reason"] = ""
    return d


class _EnvRestore:
    modname = None
    entry = None
    level = "P"
    target = None
    assumptions = ["fault model: any statement containing a call, subscript, attribute access or operator may raise an "
                   "arbitrary Exception (BaseException subclasses such as KeyboardInterrupt are outside the property's fault model)",
                   "collaborators do not write os.environ (obligation env.writers scans the whole package) and do not modify "
                   "the 'orig_*' entries of the metadata dictionary",
                   "NameError/MemoryError at plain name loads are not fault points"]

    def run_job(self, tier, seed, exclusions):
        t0 = time.time()
        res = JobResult(job=self.name, target=self.target, level=self.level, bound=None, prop="C20", obligations=[], failures=[],
                        crashed=None, paths=0, solver_s=0.0, queries=0, assumptions=list(self.assumptions), native_runs=0,
                        native_failures=[], vacuity=None)
        try:
            an = frame.Analyzer(self.modname)
            exits = an.analyse(self.entry)
            res["paths"] = len(exits)
            res["frame_stats"] = an.stats
            excl_keys = set()
            for ex in exclusions:
                excl_keys.add(json.dumps(ex["input"], sort_keys=True))
            groups = {}
            for o in exits:
                kind = o.site[0] if o.site else o.kind
                label = {"return": "return", "fall-off-end": "return", "explicit": "explicit-raise", "implicit": "implicit-raise",
                         "env-read": "env-keyerror", "env-del": "env-keyerror", "in-callee": "raise-in-callee"}.get(kind, kind)
                bad = o.state.restored()
                inputs = None
                if bad:
                    inputs = dict(entry=self.entry, module=self.modname,
                                  initial={K: ("set" if v else "unset") for K, v in sorted(o.state.present.items())},
                                  fault=dict(kind=label, line=_site_line(o.site), at=str(o.site[2]) if o.site else None),
                                  leaked={K: why for K, why in bad})
                groups.setdefault(label, []).append((bad, inputs))
            if not exits:
                res["crashed"] = "vacuous: no exit reached"
            for label, items in sorted(groups.items()):
                for bad, inputs in items:
                    known = inputs is not None and json.dumps(_finding_key(inputs), sort_keys=True) in excl_keys
                    note = "" if not bad else "exit (%s) at line %s with %s; initial %s" % (label, inputs["fault"]["line"], inputs["leaked"], inputs["initial"])
                    res["obligations"].append(_obligation("%s:env.restore@%s" % (self.name, label), (not bad) or known, note, inputs))
            # no unmodelled environment effects
            res["obligations"].append(_obligation("%s:env.effects-modelled" % self.name, not an.problems, "; ".join("line %d: %s" % p for p in an.problems)))
            # vacuity: the analysis must actually have seen environment writes and fault points
            touched = set()
            for o in exits:
                touched |= set(o.state.env)
            res["vacuity"] = dict(exits=len(exits), touched=sorted(touched), may_raise_points=an.stats["may_raise_points"])
            res["obligations"].append(_obligation("%s:vacuity.env-writes-seen" % self.name, bool(touched) and an.stats["may_raise_points"] > 0,
                                                  "analysis saw no environment write or no fault point"))
            res["rewritten_source"] = None
            res["touched"] = sorted(touched)
        except frame.Unmodelled as e:
            res["crashed"] = "Unmodelled: %s" % e
        except Exception:
            res["crashed"] = traceback.format_exc()
        res["wall_s"] = time.time() - t0
        return res

    # ---- native replay: real function, real os.environ, fault injected at the failing line ----------------
    def native_replay(self, inputs):
        return run_native(inputs)


def _site_line(site):
    if not site:
        return None
    if site[0] == "in-callee":
        # innermost line
        txt = site[2]
        import re
        m = re.findall(r"\('(?:implicit|explicit|env-read|env-del)', (\d+)", txt)
        return int(m[-1]) if m else site[1]
    return site[1]


def _finding_key(inputs):
    return dict(entry=inputs["entry"], initial=inputs["initial"], fault=inputs["fault"])


@contextlib.contextmanager
def _saved_environ():
    snap = dict(os.environ)
    try:
        yield
    finally:
        for k in list(os.environ):
            if k not in snap:
                del os.environ[k]
        for k, v in snap.items():
            if os.environ.get(k) != v:
                os.environ[k] = v


def run_native(inputs):
    """Calls the real entry point with os.environ prepared as in `inputs['initial']`, raising InjectedFault when
    execution reaches line inputs['fault']['line'] of the module (sys.settrace); compares the environment
    before/after.  Returns (ok, detail)."""
    import numpy as np
    from unittest import mock
    modname, entry = inputs["module"], inputs["entry"]
    mod = importlib.import_module(modname)
    fn = getattr(mod, entry)
    line = inputs["fault"]["line"]
    kind = inputs["fault"]["kind"]
    fname = mod.__file__
    with _saved_environ(), tempfile.TemporaryDirectory() as tmp:
        for K, stt in inputs["initial"].items():
            if stt == "set":
                os.environ[K] = "entry-value-of-" + K
            else:
                os.environ.pop(K, None)
        patches = []
        if entry == "window_score":
            os.environ.setdefault("PHOTO_RESOLVE", tmp) if "PHOTO_RESOLVE" not in inputs["initial"] else None
            hdu = mock.MagicMock()
            hdu.data = {"SCORE": np.zeros((3,), dtype=np.int16)}
            flist = mock.MagicMock()
            flist.__getitem__.return_value = hdu
            patches = [mock.patch.object(mod.fits, "open", return_value=flist)]
            if "sdss_score" not in frame.Analyzer(modname).writers:     # a collaborator that writes the environment runs for real
                patches.append(mock.patch.object(mod, "sdss_score", return_value=np.zeros((3,))))
            args, kwargs = (), {}
        else:
            par = os.path.join(os.path.dirname(fname), "tests", "t", "test_template_metadata.par")
            args, kwargs = (par, os.path.join(tmp, "dump.pkl")), {}
        before = dict(os.environ)
        hit = {"n": 0}

        def tracer(frame_, event, arg):
            if frame_.f_code.co_filename != fname:
                return None

            def local(fr, ev, ar):
                if ev == "line" and fr.f_lineno == line and kind in ("implicit-raise", "raise-in-callee") and hit["n"] == 0:
                    hit["n"] += 1
                    raise InjectedFault("fault injected at %s:%d" % (os.path.basename(fname), line))
                return local
            return local
        outcome = "returned"
        with contextlib.ExitStack() as stack:
            for p in patches:
                stack.enter_context(p)
            sys.settrace(tracer)
            try:
                fn(*args, **kwargs)
            except BaseException as e:      # noqa
                outcome = "raised %s: %s" % (type(e).__name__, str(e)[:100])
            finally:
                sys.settrace(None)
        after = dict(os.environ)
        diff = {}
        for k in set(before) | set(after):
            if before.get(k) != after.get(k):
                diff[k] = (before.get(k, "<unset>"), after.get(k, "<unset>"))
        ok = not diff
        return (ok, "%s; injected=%s; environment diff (before, after): %s" % (outcome, bool(hit["n"]), diff))


@register("C20")
class WindowScoreEnv(_EnvRestore):
    name = "window_score"
    modname = "pydl.photoop.window"
    entry = "window_score"
    target = "pydl.photoop.window:window_score"


@register("C20")
class TemplateInputEnv(_EnvRestore):
    name = "template_input"
    modname = "pydl.pydlspec2d.spec1d"
    entry = "template_input"
    target = "pydl.pydlspec2d.spec1d:template_input (+ template_metadata inlined)"


@register("C20")
class EnvWriters:
    """env.writers: environment writes occur only in functions that the two jobs above analyse"""
    name = "env_writers"
    target = "pydl/**/*.py (AST scan)"
    level = "P"
    prop = "C20"

    def run_job(self, tier, seed, exclusions):
        t0 = time.time()
        res = JobResult(job=self.name, target=self.target, level=self.level, bound=None, prop="C20", obligations=[], failures=[],
                        crashed=None, paths=0, solver_s=0.0, queries=0, assumptions=["environment writes through other APIs "
                        "(ctypes, subprocess of a shell, C extensions) are not visible to an AST scan"], native_runs=0,
                        native_failures=[], vacuity=None)
        try:
            import pydl
            root = os.path.dirname(pydl.__file__)
            analysed = {}
            for modname, entry in ENTRY_POINTS:
                an = frame.Analyzer(modname)
                reach = {entry}
                changed = True
                while changed:
                    changed = False
                    for f in list(reach):
                        for n in ast.walk(an.funcs[f]):
                            if isinstance(n, ast.Call) and isinstance(n.func, ast.Name) and n.func.id in an.writers and n.func.id not in reach:
                                reach.add(n.func.id)
                                changed = True
                analysed[os.path.relpath(an.mod.__file__, root)] = reach
            nfiles = 0
            sites = []
            for dp, dn, fns in os.walk(root):
                if "/tests" in dp:
                    continue
                for f in fns:
                    if f.endswith(".py"):
                        nfiles += 1
                        path = os.path.join(dp, f)
                        rel = os.path.relpath(path, root)
                        for (fn, ln, what) in frame.env_write_sites(ast.parse(open(path).read())):
                            ok = fn.split(".")[0] in analysed.get(rel, set())
                            sites.append((rel, fn, ln, what, ok))
            res["paths"] = nfiles
            bad = [s for s in sites if not s[4]]
            res["obligations"].append(_obligation("env_writers:only-in-analysed-functions", not bad,
                                                  "; ".join("%s:%d %s in %s" % (s[0], s[2], s[3], s[1]) for s in bad)))
            res["obligations"].append(_obligation("env_writers:vacuity.sites-found", len(sites) >= 2, "scan found %d write sites" % len(sites)))
            res["sites"] = [list(s) for s in sites]
        except Exception:
            res["crashed"] = traceback.format_exc()
        res["wall_s"] = time.time() - t0
        return res
