"""C16 -- readspec returns each requested spectrum in request order, unshifted; spec_append never overlaps/drops/moves data."""
import numpy as np
import z3
from pyvc.harness import FunctionContract, LemmaJob, register
from pyvc.proxies import SInt, SReal, SBool, SBV, sym_int
from pyvc import arrays as A
from pyvc import spec as S

EXPLANATION = "spec_append: whole-result postcondition (every cell) for all shapes and shifts; readspec request key injective (BV64 lemma)."
UNDECIDED = ["readspec: FITS I/O, file location (spec_path/number_of_fibers) -- trusted (A5); latest_mjd only as a bounded stand-in over in-memory directory listings",
             "readspec: per-HDU row selection and final argsort reorder are decided for the request-grouping key (lemma) and by the bounded readspec_reorder job on generated file sets (FITS reader replaced by in-memory HDUs)"]


@register("C16")
class SpecAppend(FunctionContract):
    name = "spec_append"
    target = "pydl.pydlspec2d.spec1d:spec_append"
    level = "P"
    expect_loops = 0
    assumptions = ["A1 floats as reals", "2-D arrays as total functions (i,j) -> value with symbolic shape"]

    def inputs(self):
        n1, p1, n2, p2 = (sym_int(k) for k in ("n1", "p1", "n2", "p2"))
        return dict(spec1=A.SArr2.symbolic(A.REAL, n1.z, p1.z, "spec1"), spec2=A.SArr2.symbolic(A.REAL, n2.z, p2.z, "spec2"),
                    pixshift=sym_int("pixshift"))

    def requires(self, spec1, spec2, pixshift):
        (n1, p1), (n2, p2) = S.shape2(spec1), S.shape2(spec2)
        return S.AND(n1 >= 0, p1 >= 0, n2 >= 0, p2 >= 0)

    def call(self, fn, spec1, spec2, pixshift):
        self._s1, self._s2 = (spec1.fn, spec2.fn) if isinstance(spec1, A.SArr2) else (spec1.copy(), spec2.copy())
        return fn(spec1, spec2, pixshift)

    def ensures(self, result, spec1, spec2, pixshift):
        (n1, p1), (n2, p2) = S.shape2(spec1), S.shape2(spec2)
        a1 = S.ite(pixshift < 0, -pixshift, 0)
        a2 = S.ite(pixshift > 0, pixshift, 0)
        w1, w2 = p1 + a1, p2 + a2
        W = S.ite(w1 >= w2, w1, w2)
        R, C = S.shape2(result)

        def cell(r, c):
            top = S.ite(S.AND(c >= a1, c < a1 + p1), S.eq(S.el2(result, r, c), S.el2(spec1, r, c - a1)), S.eq(S.el2(result, r, c), 0.0))
            bot = S.ite(S.AND(c >= a2, c < a2 + p2), S.eq(S.el2(result, r, c), S.el2(spec2, r - n1, c - a2)), S.eq(S.el2(result, r, c), 0.0))
            return S.ite(r < n1, top, bot)
        out = {"shape": S.AND(R == n1 + n2, C == W),
               "every_cell": S.forall(0, R, lambda r: S.forall(0, C, lambda c: cell(r, c)))}
        if isinstance(spec1, A.SArr2):
            out["inputs_unmodified"] = (spec1.fn is self._s1) and (spec2.fn is self._s2)
            out["fresh_array"] = (result is not spec1) and (result is not spec2)
        else:
            out["inputs_unmodified"] = bool(np.array_equal(spec1, self._s1) and np.array_equal(spec2, self._s2))
        return out

    def samples(self, rng):
        for _ in range(120):
            n1, p1, n2, p2 = rng.randint(0, 3), rng.randint(0, 4), rng.randint(0, 3), rng.randint(0, 4)
            yield dict(spec1=np.array([[rng.uniform(1, 9) for _ in range(p1)] for _ in range(n1)]).reshape(n1, p1),
                       spec2=np.array([[rng.uniform(1, 9) for _ in range(p2)] for _ in range(n2)]).reshape(n2, p2),
                       pixshift=rng.randint(-3, 3))


@register("C16")
class RequestKey(LemmaJob):
    """readspec groups requests by (plate << 16) + mjd computed on int64 arrays: injective and decoded by (>>16, &0xFFFF) for 0 <= mjd < 2**16, 0 <= plate < 2**48 (uint64)"""
    name = "request_key"
    target = "pydl.pydlspec2d.spec1d:readspec (grouping key, lemma over the documented key formula)"
    assumptions = ["the key formula (plate << 16) + mjd is checked to occur in readspec's source by the same job (textual anchor)"]

    def lemmas(self):
        def injective():
            p1, m1, p2, m2 = (SBV(z3.BitVec(k, 64), 64, False) for k in ("p1", "m1", "p2", "m2"))
            rng = S.AND(*[S.AND(m >= 0, m < 2 ** 16) for m in (m1, m2)], *[S.AND(p >= 0, p < 2 ** 48) for p in (p1, p2)])
            return S.implies(S.AND(rng, ((p1 << 16) + m1) == ((p2 << 16) + m2)), S.AND(p1 == p2, m1 == m2))

        def decode():
            p, m = (SBV(z3.BitVec(k, 64), 64, False) for k in ("p", "m"))
            key = (p << 16) + m
            return S.implies(S.AND(m >= 0, m < 2 ** 16, p >= 0, p < 2 ** 48), S.AND((key >> 16) == p, (key & ((1 << 16) - 1)) == m))

        def anchor():
            import inspect
            import pydl.pydlspec2d.spec1d as m
            src = inspect.getsource(m.readspec)
            import re
            flat = re.sub(r"\s+", "", src)
            return ("pmjd=((np.array(platevec,dtype='u8')<<16)+np.array(mjdvec,dtype='u8'))" in flat
                    and "zip(upmjd>>16,upmjd&((1<<16)-1))" in flat)
        return dict(key_injective=injective, key_decodes=decode, key_formula_present_in_readspec=anchor)


# ---------------------------------------------------------------------------
# readspec: bounded exhaustive stand-in over request vectors on a synthetic survey tree
# ---------------------------------------------------------------------------
PLATES = [(100, 51000, 4, 3.5, 1.0e-4), (100, 51005, 5, 3.6, 1.0e-4), (200, 51000, 4, 3.5, 2.0e-4)]   # plate, mjd, npix, c0, c1
NFIB = 3
HDUS = ('flux', 'invvar', 'andmask', 'ormask', 'disp', 'plugmap', 'sky', 'loglam')


def _cell(q, k, f, p):
    return float(q * 10000 + k * 1000 + (f + 1) * 100 + p + 1)


class _HDU:
    def __init__(self, data=None, header=None):
        self.data, self.header = data, header or {}
        if data is not None and data.dtype.names:
            self.columns = type("C", (), {"names": list(data.dtype.names)})()


class _HDUList(list):
    def close(self):
        pass


def _fake_open(name, *a, **kw):
    import os
    import re
    base = os.path.basename(name)
    m = re.match(r"(spPlate|spZbest|spZall|photoPlate)-(\d+)-(\d+)\.fits", base)
    if not m:
        raise OSError("no such synthetic file " + name)
    plate, mjd = int(m.group(2)), int(m.group(3))
    q = [i for i, P in enumerate(PLATES) if P[0] == plate and P[1] == mjd]
    if not q:
        raise OSError("no such synthetic plate-mjd " + name)
    q = q[0]
    npix, c0, c1 = PLATES[q][2:]
    if m.group(1) == "spPlate":
        out = _HDUList()
        for k, nm in enumerate(HDUS[:7]):
            if nm == 'plugmap':
                d = np.zeros((NFIB,), dtype=[('FIBERID', 'i4'), ('OBJ', 'f8')])
                for f in range(NFIB):
                    d[f] = (f + 1, q * 100 + f)
                out.append(_HDU(d))
            else:
                d = np.array([[_cell(q, k, f, p) for p in range(npix)] for f in range(NFIB)])
                out.append(_HDU(d, {'NAXIS1': npix, 'COEFF0': c0, 'COEFF1': c1} if k == 0 else {}))
        return out
    if m.group(1) == "spZbest":
        d = np.zeros((NFIB,), dtype=[('FIBERID', 'i4'), ('Z', 'f8')])
        for f in range(NFIB):
            d[f] = (f + 1, q * 100 + f + 0.5)
        return _HDUList([_HDU(None, {}), _HDU(d)])
    raise OSError("not provided")


def _expected(req):
    """what readspec must return for request list [(q, fibre)], from the property statement"""
    npixmax = max(PLATES[q][2] for q, f in req)
    exp = {}
    for k, nm in enumerate(HDUS):
        if nm == 'plugmap':
            continue
        rows = []
        for q, fib in req:
            npix, c0, c1 = PLATES[q][2:]
            if nm == 'loglam':
                row = [c0 + c1 * p for p in range(npix)]
            else:
                row = [_cell(q, k, fib - 1, p) for p in range(npix)]
            rows.append(row + [0.0] * (npixmax - npix))
        exp[nm] = np.array(rows)
    exp['plugmap.FIBERID'] = np.array([fib for q, fib in req])
    exp['plugmap.OBJ'] = np.array([q * 100 + fib - 1 for q, fib in req], dtype=float)
    exp['zans.FIBERID'] = np.array([fib for q, fib in req])
    exp['zans.Z'] = np.array([q * 100 + fib - 1 + 0.5 for q, fib in req])
    return exp


def _run_readspec(req, scalar=False):
    from unittest import mock
    import pydl.pydlspec2d.spec1d as m
    plate = np.array([PLATES[q][0] for q, f in req])
    mjd = np.array([PLATES[q][1] for q, f in req])
    fiber = np.array([f for q, f in req])
    if scalar and len(req) == 1:
        plate, mjd, fiber = int(plate[0]), int(mjd[0]), int(fiber[0])

    def exists(p):
        return "spZbest" in p
    import logging
    m.log.setLevel(logging.ERROR)
    with mock.patch.object(m.fits, "open", _fake_open), mock.patch.object(m.os.path, "exists", exists), \
            mock.patch.dict(m.os.environ, {"SPECTRO_MATCH": "/synthetic/match", "PHOTO_RESOLVE": "/synthetic/resolve"}):
        return m.readspec(plate, mjd=mjd, fiber=fiber, path="/synthetic", run2d="v0", run1d="v0")


def _compare(req, res):
    exp = _expected(req)
    bad = []
    for nm, want in exp.items():
        if "." in nm:
            a, b = nm.split(".")
            got = res.get(a, {}).get(b) if isinstance(res.get(a), dict) else None
        else:
            got = res.get(nm)
        if got is None or np.shape(got) != np.shape(want) or not np.allclose(np.asarray(got, dtype=float), want, rtol=0, atol=1e-9):
            bad.append(nm)
    return bad


@register("C16")
class ReadspecReorder:
    """row i of every returned image / column belongs to request i (bounded exhaustive over request vectors)"""
    name = "readspec_reorder"
    prop = "C16"
    target = "pydl.pydlspec2d.spec1d:readspec"
    level = "B"

    def run_job(self, tier, seed, exclusions):
        import itertools
        import time
        import traceback
        from pyvc.harness import JobResult
        t0 = time.time()
        maxlen = 3 if tier == "quick" else 4
        res = JobResult(job=self.name, target=self.target, level="B", prop="C16", obligations=[], failures=[], crashed=None,
                        bound="all request vectors of length 1..%d over %d plate-MJDs (two sharing a plate number, differing pixel counts) x %d fibres, "
                              "every order and repetition, vector and scalar conventions; synthetic FITS contents tagged with their provenance" % (maxlen, len(PLATES), NFIB),
                        paths=0, solver_s=0.0, queries=0, native_runs=0, native_failures=[], vacuity=None,
                        assumptions=["FITS I/O replaced by an in-memory synthetic tree (astropy.io.fits trusted, A5)",
                                     "data-obliviousness: readspec only moves cell values, so provenance-tagged concrete cells stand for all contents",
                                     "bounded: request vectors up to the stated length only"])
        try:
            space = [(q, f) for q in range(len(PLATES)) for f in range(1, NFIB + 1)]
            fails = []
            n = 0
            for L in range(1, maxlen + 1):
                for req in itertools.product(space, repeat=L):
                    n += 1
                    for scalar in ((False, True) if L == 1 else (False,)):
                        try:
                            out = _run_readspec(list(req), scalar)
                            bad = _compare(list(req), out)
                        except Exception as e:
                            bad = ["raised %s: %s" % (type(e).__name__, e)]
                        if bad and len(fails) < 5:
                            fails.append((list(req), scalar, bad))
            res["paths"] = n
            res["native_runs"] = n
            ok = not fails
            d = dict(name="readspec_reorder:row_i_is_request_i", path=0, status="unsat" if ok else "sat", secs=0.0, backend="native-exhaustive",
                     size=0, note="" if ok else "request %s (scalar=%s): wrong %s" % fails[0])
            if not ok:
                d.update(inputs=dict(request=[list(x) for x in fails[0][0]], scalar=fails[0][1]), model=str(fails[:3]), reason="")
            res["obligations"].append(d)
            res["vacuity"] = dict(requests=n)
        except Exception:
            res["crashed"] = traceback.format_exc()
        res["wall_s"] = time.time() - t0
        return res

    def native_replay(self, inputs):
        req = [tuple(x) for x in inputs["request"]]
        try:
            out = _run_readspec(req, inputs.get("scalar", False))
            bad = _compare(req, out)
        except Exception as e:
            return (False, "raised %s: %s" % (type(e).__name__, e))
        return (not bad, "request (plate-mjd index, fibre) %s: mismatching outputs %s" % (req, bad))


# ---------------------------------------------------------------------------
# which plate-MJD file is "the latest": a function of the files present under the given path at the time of the call (bounded stand-in)
# ---------------------------------------------------------------------------
from pyvc.numeric import NumericJob as _NumericJob


@register("C16")
class LatestMjd(_NumericJob):
    name = "latest_mjd_per_tree"
    target = "pydl.pydlspec2d.spec1d:latest_mjd (used by readspec when mjd is omitted)"
    bound = ("2..3 synthetic directory trees (glob replaced by an in-memory listing) holding 1..4 MJDs for each of 1..4 plates; the trees are queried one after the "
             "other, a newer file is then added to the first tree and it is queried again; scalar and array plate arguments")
    KINDS = ("latest_mjd_is_the_maximum_present_under_the_given_path_now",)
    NQ, NT = 40, 400

    def _cases(self, rng, n):
        for rep in range(n):
            plates = rng.sample([300, 301, 1234, 42, 9999], rng.randint(1, 4))
            trees = []
            for t in range(rng.randint(2, 3)):
                trees.append({p: sorted(rng.sample(range(51000, 58000), rng.randint(1, 4))) for p in plates})
            yield dict(plates=plates, trees=trees, inp=dict(rep=rep, plates=plates, trees=[{str(k): v for k, v in t.items()} for t in trees]))

    def _check(self, c):
        import re
        from unittest import mock
        import pydl.pydlspec2d.spec1d as m
        trees = [dict((p, list(v)) for p, v in t.items()) for t in c["trees"]]
        bad = []

        def fake_glob(pattern):
            mm = re.match(r"/tree(\d+)/.*spPlate-(\d+)-\*\.fits$", pattern)
            if not mm:
                return []
            t, p = int(mm.group(1)), int(mm.group(2))
            return ["/tree%d/spPlate-%04d-%05d.fits" % (t, p, mj) for mj in trees[t].get(p, [])]
        with mock.patch.object(m.glob, "glob", fake_glob):
            order = list(range(len(trees))) + [0]
            for step, t in enumerate(order):
                if step == len(order) - 1:
                    for p in c["plates"]:
                        trees[0][p].append(max(max(tt[p]) for tt in trees) + 7)       # a newer observation arrives in the first tree
                want = [max(trees[t][p]) for p in c["plates"]]
                got = list(np.asarray(m.latest_mjd(np.array(c["plates"]), path="/tree%d" % t)))
                one = int(np.asarray(m.latest_mjd(c["plates"][0], path="/tree%d" % t)).ravel()[0])
                if got != want or one != want[0]:
                    bad.append(("latest_mjd_is_the_maximum_present_under_the_given_path_now", "query %d (tree %d): plates %s -> %s (scalar %d), files present give %s" %
                                (step + 1, t, c["plates"], got, one, want)))
                    break
        return bad
