"""C03 -- yanny: object and file never diverge over write/append histories."""
import io
import itertools
import os
import tempfile
import warnings
import numpy as np
import z3
from pyvc.harness import FunctionContract, register, JobResult
from pyvc.proxies import SBool, sym_bool
from pyvc.engine import eng
from pyvc import spec as S

EVIDENCE_LEVEL = "proof"
EXPLANATION = ("Per-operation effect contracts of yanny.write / yanny.append on the real methods with a ghost file system and a symbolic "
               "existence/writability test: guards precede every effect, the text sent to the file is the text stored in _contents, a refused "
               "request changes nothing, an empty append only warns; the representation invariant file == _contents is preserved by every "
               "operation, hence after any history (induction).  Object == fresh read after bounded histories is a bounded stand-in.")
UNDECIDED = ["that _parse is a function of (_contents, raw) alone for ALL contents: decided by a read-set scan plus bounded histories, not by proof",
             "the parse itself (C01/C02)"]

DOC = '''#%yanny
alpha 1
beta two words

typedef struct {
    int a;
    char b[10];
    float c[2];
} MYSTRUCT;

typedef struct {
    long n;
} OTHER;

typedef struct {
    int k;
    char name[];
} NAMES;

mystruct 1 one {1.5 2.5}
mystruct 2 "two 2" {3.5 4.5}
OTHER 42
names 1 ab
names 2 abcd
'''


class GhostFS:
    """ghost file system: path -> text; every open/write is logged"""
    def __init__(self, files=None):
        self.files = dict(files or {})
        self.log = []

    def open(self, path, mode="r", *a, **k):
        fs = self
        fs.log.append(("open", path, mode))

        class F:
            def __enter__(s):
                if mode == "w":
                    fs.files[path] = ""
                elif mode == "a":
                    if path not in fs.files:
                        fs.files[path] = ""
                        fs.log.append(("created-by-append", path))
                return s

            def __exit__(s, *e):
                return False

            def write(s, text):
                fs.log.append(("write", path, text))
                fs.files[path] = fs.files.get(path, "") + text

            def read(s):
                return fs.files[path]
        return F()


class OsShim:
    """os with access() answered by a symbolic predicate on the ghost file system's view"""
    def __init__(self, answers):
        import os as _os
        self._os = _os
        self.path = _os.path
        self.F_OK, self.W_OK, self.R_OK = _os.F_OK, _os.W_OK, _os.R_OK
        self.answers = answers
        self.asked = []

    def access(self, path, mode):
        self.asked.append((path, mode))
        b = self.answers[len(self.asked) - 1] if len(self.asked) - 1 < len(self.answers) else self.answers[-1]
        return bool(b)

    def __getattr__(self, name):
        return getattr(self._os, name)


def _mk(raw=False):
    from pydl.pydlutils.yanny import yanny
    return yanny(io.StringIO(DOC), raw=raw) if False else _from_text(DOC, raw)


def _from_text(text, raw=False):
    from pydl.pydlutils.yanny import yanny

    class SIO(io.StringIO):
        mode = "r"
    return yanny(SIO(text), raw=raw)


def _snapshot(par):
    tabs = {}
    for t in par.tables():
        cols = {}
        for c in par.columns(t):
            v = par[t][c]
            cols[c] = [x.tolist() if hasattr(x, "tolist") else x for x in (v.tolist() if hasattr(v, "tolist") else list(v))]
        tabs[t] = cols
    return dict(tables=tabs, pairs={k: par[k] for k in par.pairs()}, contents=par._contents, filename=par.filename)


def _same_data(a, b):
    return a["tables"] == b["tables"] and a["pairs"] == b["pairs"]


class _Effects(FunctionContract):
    level = "C"
    bound = "table shapes fixed (a two-table document, 0..2 appended rows, 0..2 appended pairs); the existence / writability answer is symbolic; normal and raw mode"
    assumptions = ["ghost file system: open(p,'w') truncates/creates, open(p,'a') appends (and would create), write appends text; os.access answers are arbitrary",
                   "data-obliviousness: the relation between the text written and the text stored does not depend on cell values"]

    def samples(self, rng):
        return iter(())


@register("C03")
class WriteEffects(_Effects):
    name = "write_effects"
    target = "pydl.pydlutils.yanny:yanny.write"

    def cases(self, tier):
        return [(raw, nf) for raw in (False, True) for nf in ("new.par", None, "none-and-unbound")]

    def inputs(self):
        return dict(exists=sym_bool("exists"))

    def call(self, fn, exists):
        raw, nf = self.case
        par = _from_text(DOC, raw)
        if nf is None:
            par.filename = "bound.par"
        elif nf == "none-and-unbound":
            par.filename = ""
        fs = GhostFS({"other.par": "untouched"})
        osh = OsShim([exists])
        g = fn.__globals__
        g["os"], g["open"] = osh, fs.open
        self._before = _snapshot(par)
        self._fs, self._os, self._par = fs, osh, par
        return fn(par, newfile=None if nf != "new.par" else nf)

    def _target(self):
        raw, nf = self.case
        return "new.par" if nf == "new.par" else ("bound.par" if nf is None else None)

    def ensures(self, result, exists):
        fs, par = self._fs, self._par
        tgt = self._target()
        after = _snapshot(par)
        opens = [l for l in fs.log if l[0] == "open"]
        text = fs.files.get(tgt)
        fresh = _snapshot(_from_text(text, self.case[0])) if text is not None else None
        return {"only_reached_when_target_does_not_exist": S.NOT(exists),
                "existence_tested_on_the_target_before_any_effect": self._os.asked[:1] == [(tgt, os.F_OK)],
                "exactly_one_open_for_writing_the_target": opens == [("open", tgt, "w")],
                "file_text_equals_object_contents": text == after["contents"],
                "object_bound_to_the_new_file": after["filename"] == tgt,
                "other_files_untouched": fs.files.get("other.par") == "untouched" and set(fs.files) == {"other.par", tgt},
                "object_equals_fresh_read_of_the_file": fresh is not None and _same_data(after, fresh),
                "data_unchanged_by_writing": _same_data(after, self._before)}

    def raises(self, exc, exists):
        from pydl.pydlutils import PydlutilsException
        fs, par = self._fs, self._par
        untouched = (not [l for l in fs.log if l[0] in ("open", "write")]) and _snapshot(par) == self._before and fs.files == {"other.par": "untouched"}
        if isinstance(exc, PydlutilsException):
            return {"refused_only_when_target_exists": exists if isinstance(exists, SBool) else bool(exists),
                    "refusal_leaves_file_and_object_unchanged": untouched}
        if isinstance(exc, ValueError) and self._target() is None:
            return {"no_filename_refused_without_effect": untouched}
        return None


@register("C03")
class AppendEffects(_Effects):
    name = "append_effects"
    target = "pydl.pydlutils.yanny:yanny.append"

    def cases(self, tier):
        tables = [("none", None), ("upper", {"MYSTRUCT": {"a": [7, 8], "b": ["x y", "#z"], "c": [[1.0, 2.0], [3.0, 4.0]]}}),
                  ("tabs", {"MYSTRUCT": {"a": [6, 5], "b": ["p\tq", ";{}"], "c": [[1.0, 2.0], [3.0, 4.0]]}}),
                  ("lower", {"mystruct": {"a": [9], "b": [""], "c": [[0.5, 0.25]]}}), ("other", {"OTHER": {"n": [1, 2]}})]
        pairs = [{}, {"gamma": "3"}, {"delta": "4 5", "eps": "x"}]
        return [(raw, t, tuple(sorted(p.items()))) for raw in (False, True) for t in tables for p in pairs]

    def case_label(self):
        raw, t, p = self.case
        return "[raw=%s,rows=%s,pairs=%d]" % (raw, t[0], len(p))

    def inputs(self):
        return dict(writable=sym_bool("writable"))

    def call(self, fn, writable):
        raw, (tname, tab), pairs = self.case
        par = _from_text(DOC, raw)
        par.filename = "bound.par"
        fs = GhostFS({"bound.par": par._contents, "other.par": "untouched"})
        osh = OsShim([writable])
        g = fn.__globals__
        g["os"], g["open"] = osh, fs.open
        data = dict(pairs)
        if tab:
            data.update(tab)
        self._before = _snapshot(par)
        self._fs, self._os, self._par, self._data = fs, osh, par, data
        with warnings.catch_warnings(record=True) as w:
            warnings.simplefilter("always")
            r = fn(par, data)
            self._warned = [str(x.message) for x in w]
        return r

    def ensures(self, result, writable):
        fs, par, data = self._fs, self._par, self._data
        before, after = self._before, _snapshot(par)
        opens = [l for l in fs.log if l[0] == "open"]
        writes = [l for l in fs.log if l[0] == "write"]
        if not data:
            return {"empty_append_only_warns": bool(self._warned) and not opens and not writes and after == before and
                    fs.files == {"bound.par": before["contents"], "other.par": "untouched"}}
        text = fs.files["bound.par"]
        appended = "".join(w[2] for w in writes)
        fresh = _snapshot(_from_text(text, self.case[0]))
        # expected logical content: original followed by every appended row and pair in order
        exp_pairs = dict(before["pairs"])
        for k, v in data.items():
            if k.upper() not in before["tables"]:
                exp_pairs[k] = str(v)
        rows_ok = True
        for t, cols in before["tables"].items():
            src = data.get(t.lower(), data.get(t))
            for c, old in cols.items():
                new = after["tables"][t][c]
                want = list(old)
                if src is not None:
                    want = want + [([float(x) for x in v] if isinstance(v, list) else v) for v in src[c]]
                def norm(v):
                    if isinstance(v, list):
                        return [float(x) for x in v]
                    if isinstance(v, bytes):
                        return v.decode()
                    return v
                got = [norm(v) for v in new]
                want = [norm(v) for v in want]
                rows_ok = rows_ok and got == want
        return {"only_reached_when_file_is_writable": writable,
                "writability_tested_on_the_bound_file_first": self._os.asked[:1] == [("bound.par", os.W_OK)],
                "exactly_one_open_in_append_mode": opens == [("open", "bound.par", "a")] and ("created-by-append", "bound.par") not in fs.log,
                "earlier_bytes_preserved_and_same_text_stored": text == before["contents"] + appended and after["contents"] == before["contents"] + appended,
                "file_text_equals_object_contents": text == after["contents"],
                "other_files_untouched": fs.files.get("other.par") == "untouched" and set(fs.files) == {"other.par", "bound.par"},
                "object_equals_fresh_read_of_the_file": _same_data(after, fresh),
                "original_content_followed_by_appended_rows": rows_ok,
                "appended_pairs_present": after["pairs"] == exp_pairs}

    def raises(self, exc, writable):
        from pydl.pydlutils import PydlutilsException
        fs, par = self._fs, self._par
        untouched = (not [l for l in fs.log if l[0] in ("open", "write")]) and _snapshot(par) == self._before and \
            fs.files == {"bound.par": self._before["contents"], "other.par": "untouched"}
        if isinstance(exc, PydlutilsException):
            return {"refused_only_when_file_not_writable": S.NOT(writable), "refusal_creates_nothing_and_changes_nothing": untouched}
        return None


@register("C03")
class Histories:
    """object == fresh read == original + appended content after every bounded history of operations on real temporary files"""
    name = "histories"
    prop = "C03"
    target = "pydl.pydlutils.yanny:yanny (write, append, __init__)"
    level = "B"
    OPS = ["write-new", "append-rows-upper", "append-rows-lower", "append-longer-string", "append-pairs", "append-pair-again", "append-empty", "write-copy",
           "write-over-existing", "append-to-missing", "re-read"]

    def run_job(self, tier, seed, exclusions):
        import time
        import traceback
        from pydl.pydlutils.yanny import yanny
        from pydl.pydlutils import PydlutilsException
        t0 = time.time()
        L = 3 if tier == "quick" else 4
        res = JobResult(job=self.name, target=self.target, level="B", prop="C03", obligations=[], failures=[], crashed=None,
                        bound="every sequence of up to %d operations from %s, in normal and raw mode, on a two-table document" % (L, self.OPS),
                        paths=0, solver_s=0.0, queries=0, native_runs=0, native_failures=[], vacuity=None,
                        assumptions=["real files in a temporary directory", "bounded history length; one document"])
        fails = {}
        count = 0
        try:
            for raw in (False, True):
                for n in range(1, L + 1):
                    for seq in itertools.product(self.OPS, repeat=n):
                        count += 1
                        bad = self._run(seq, raw)
                        for kind, msg in bad:
                            fails.setdefault(kind, []).append((list(seq), raw, msg))
            res["paths"] = res["native_runs"] = count
            for kd in ("object_equals_fresh_read", "earlier_bytes_preserved", "refused_requests_change_nothing", "logical_content", "no_unexpected_exception"):
                b = fails.get(kd, [])
                d = dict(name="histories:" + kd, path=0, status="unsat" if not b else "sat", secs=0.0, backend="native-exhaustive", size=0,
                         note="" if not b else "history %s raw=%s: %s" % b[0])
                if b:
                    d.update(inputs=dict(history=b[0][0], raw=b[0][1]), model=str(b[:2])[:1500], reason="")
                res["obligations"].append(d)
            res["vacuity"] = dict(histories=count)
        except Exception:
            res["crashed"] = traceback.format_exc()
        res["wall_s"] = time.time() - t0
        return res

    def _run(self, seq, raw):
        from pydl.pydlutils.yanny import yanny
        from pydl.pydlutils import PydlutilsException
        bad = []
        with tempfile.TemporaryDirectory() as tmp, warnings.catch_warnings():
            warnings.simplefilter("ignore")
            par = _from_text(DOC, raw)
            par.filename = ""
            nfile = 0
            expected_rows = {"MYSTRUCT": 2, "OTHER": 1, "NAMES": 2}
            expected_names = ["ab", "abcd"]
            again = 0
            expected_pairs = {"alpha": "1", "beta": "two words"}
            expected_cells = []
            for op in seq:
                before = _snapshot(par)
                fname = par.filename
                old_bytes = open(fname).read() if fname and os.path.exists(fname) else None
                listing = sorted(os.listdir(tmp))
                refused = False
                try:
                    if op == "write-new":
                        nfile += 1
                        par.write(os.path.join(tmp, "f%d.par" % nfile))
                    elif op == "write-copy":
                        nfile += 1
                        par.write(os.path.join(tmp, "copy%d.par" % nfile))
                    elif op == "write-over-existing":
                        if not fname:
                            continue
                        try:
                            par.write(fname)
                            bad.append(("refused_requests_change_nothing", "write over existing file did not raise"))
                        except PydlutilsException:
                            refused = True
                    elif op == "append-to-missing":
                        ghost = _from_text(par._contents, raw)
                        ghost.filename = os.path.join(tmp, "missing.par")
                        try:
                            ghost.append({"zeta": "1"})
                            bad.append(("refused_requests_change_nothing", "append to a missing file did not raise"))
                        except PydlutilsException:
                            pass
                        if os.path.exists(os.path.join(tmp, "missing.par")):
                            bad.append(("refused_requests_change_nothing", "append created the file"))
                        continue
                    elif op == "re-read":
                        if fname:
                            par = yanny(fname, raw=raw)
                    elif not fname:
                        try:
                            par.append({"x": "1"})
                            bad.append(("refused_requests_change_nothing", "append without filename did not raise"))
                        except ValueError:
                            refused = True
                    elif op == "append-rows-upper":
                        par.append({"MYSTRUCT": {"a": [5, 6], "b": ["u p", "t\tb"], "c": [[9.0, 8.0], [7.0, 6.0]]}})
                        expected_rows["MYSTRUCT"] += 2
                        expected_cells.append("t\tb")
                    elif op == "append-rows-lower":
                        par.append({"other": {"n": [7, 8]}})
                        expected_rows["OTHER"] += 2
                    elif op == "append-longer-string":
                        # an open-width char column must widen with what is appended: once as a list, once as a record array under the lower-case name
                        k = len(expected_names)
                        par.append({"NAMES": {"k": [k + 1], "name": ["s%d" % k]}})
                        rec = np.zeros((1,), dtype=[("k", "i4"), ("name", "S40")])
                        rec["k"] = k + 2
                        rec["name"] = ("a_much_longer_name_%d" % k + "x" * k).encode()
                        par.append({"names": rec})
                        expected_rows["NAMES"] += 2
                        expected_names += ["s%d" % k, "a_much_longer_name_%d" % k + "x" * k]
                    elif op == "append-pair-again":
                        # a keyword that already exists (also in upper case): the appended pair is the later one in the file and wins
                        again += 1
                        v = "again %d" % again
                        par.append({"alpha": v, "EXPTIME": v.upper()})
                        expected_pairs["alpha"] = v
                        expected_pairs["EXPTIME"] = v.upper()
                    elif op == "append-pairs":
                        k = "k%d" % len(expected_pairs)
                        par.append({k: "v v"})
                        expected_pairs[k] = "v v"
                    elif op == "append-empty":
                        par.append({})
                        refused = True
                except Exception as e:
                    bad.append(("no_unexpected_exception", "%s raised %s: %s" % (op, type(e).__name__, e)))
                    break
                after = _snapshot(par)
                if refused and (after != before or sorted(os.listdir(tmp)) != listing or
                                (old_bytes is not None and open(fname).read() != old_bytes)):
                    bad.append(("refused_requests_change_nothing", "%s changed object or files" % op))
                if par.filename and os.path.exists(par.filename):
                    text = open(par.filename).read()
                    if par.filename == fname and old_bytes is not None and not text.startswith(old_bytes):
                        bad.append(("earlier_bytes_preserved", "%s rewrote earlier lines" % op))
                    fresh = _snapshot(yanny(par.filename, raw=raw))
                    if not _same_data(after, fresh) or text != after["contents"]:
                        bad.append(("object_equals_fresh_read", "after %s" % op))
                sizes = {t: len(next(iter(c.values()))) if c else 0 for t, c in after["tables"].items()}
                bcol = [x.decode() if isinstance(x, bytes) else x for x in after["tables"]["MYSTRUCT"]["b"]]
                if any(cell not in bcol for cell in expected_cells):
                    bad.append(("logical_content", "after %s: appended cell values %r not all among %r" % (op, expected_cells, bcol)))
                ncol = [x.decode() if isinstance(x, bytes) else x for x in after["tables"]["NAMES"]["name"]]
                if ncol != expected_names:
                    bad.append(("logical_content", "after %s: names column %r, expected %r" % (op, ncol, expected_names)))
                if sizes != expected_rows or after["pairs"] != expected_pairs:
                    bad.append(("logical_content", "after %s: rows %s pairs %s" % (op, sizes, sorted(after["pairs"]))))
        return bad

    def native_replay(self, inputs):
        bad = self._run(tuple(inputs["history"]), inputs["raw"])
        return (not bad, "history %s raw=%s: %s" % (inputs["history"], inputs["raw"], bad[:3]))
