"""C01 -- yanny: tables and header pairs written to a file read back unchanged."""
import itertools
import os
import struct
import tempfile
import warnings
import numpy as np
from pyvc.harness import register, JobResult

EVIDENCE_LEVEL = "other"
EXPLANATION = ("Bounded stand-in: write_ndarray_to_yanny -> yanny(file) round trips enumerated exhaustively over small alphabets of the "
               "characters the format treats specially, every supported column kind (scalar and 1-D array), extreme integers and special "
               "floats (bit-identical), zero-row and multi-table files, header pairs, the Table entry points; every unsupported scalar "
               "kind is refused before anything is written.")
UNDECIDED = ["strings of unbounded length / arbitrary characters: decided for all strings over the special-character alphabet up to the stated length only",
             "numpy's number formatting (repr of floats) and parsing: trusted"]

ALPHA = ["a", " ", "\t", "#", ";", "{", "}", "\\", "\x0c"]


def _strings(maxlen, allow_leading_brace=False, allow_close_brace=True, allow_trailing_backslash=True):
    out = [""]
    for n in range(1, maxlen + 1):
        for t in itertools.product(ALPHA, repeat=n):
            s = "".join(t)
            if not allow_leading_brace and s.startswith("{"):
                continue
            if not allow_close_brace and "}" in s:
                continue
            if not allow_trailing_backslash and s.endswith("\\"):
                continue
            out.append(s)
    return out


def _roundtrip(tables, names=None, hdr=None, enums=None, raw=False):
    from pydl.pydlutils.yanny import yanny, write_ndarray_to_yanny
    with tempfile.TemporaryDirectory() as tmp, warnings.catch_warnings():
        warnings.simplefilter("ignore")
        fn = os.path.join(tmp, "t.par")
        write_ndarray_to_yanny(fn, tables, structnames=names, hdr=hdr, enums=enums)
        return yanny(fn, raw=raw), open(fn).read()


def _same_bits(a, b):
    a, b = np.asarray(a), np.asarray(b)
    return a.shape == b.shape and a.dtype == b.dtype and a.tobytes() == b.tobytes()


@register("C01")
class RoundTrip:
    name = "write_read_roundtrip"
    prop = "C01"
    target = "pydl.pydlutils.yanny:write_ndarray_to_yanny, yanny (write, _parse, protect, get_token, trailing_comment, dtype_to_struct)"
    level = "B"

    def run_job(self, tier, seed, exclusions):
        import time
        import traceback
        t0 = time.time()
        L = 3 if tier == "quick" else 4
        res = JobResult(job=self.name, target=self.target, level="B", prop="C01", obligations=[], failures=[], crashed=None,
                        bound="strings: every string of length <= %d over %r (minus the documented exclusions) as scalar cell, first/last column, array element and header value; "
                              "numeric kinds i2/i4/i8/f4/f8 scalar and [1..3]; string widths 1..6; 0..3 rows; 1..3 tables per file; 24 (quick) / 240 (thorough) random mixes of 2..4 columns "
                              "of any kind and length whose names are case variants / prefixes / substrings of each other" % (L, ALPHA),
                        paths=0, solver_s=0.0, queries=0, native_runs=0, native_failures=[], vacuity=None,
                        assumptions=["bounded exhaustive enumeration on real temporary files", "known findings are excluded by the predicates recorded in known_findings.jsonl"])
        excl = {e["obligation"].split(":", 1)[1]: e for e in exclusions}
        fails = {}
        count = [0]

        def bad(kind, msg, inp):
            fails.setdefault(kind, []).append((msg, inp))

        try:
            from pydl.pydlutils.yanny import yanny, write_ndarray_to_yanny, write_table_yanny, read_table_yanny
            from pydl.pydlutils import PydlutilsException
            from astropy.table import Table
            # ---- string cells ---------------------------------------------------------------
            S_any = _strings(L)
            S_last = _strings(L, allow_trailing_backslash=False)
            w = L

            def check_strings(vals_first, vals_last):
                n = max(len(vals_first), len(vals_last))
                a = np.zeros((n,), dtype=[("s1", "S%d" % w), ("k", "i4"), ("s2", "S%d" % w)])
                for i in range(n):
                    a[i] = (vals_first[i % len(vals_first)].encode(), i, vals_last[i % len(vals_last)].encode())
                try:
                    par, text = _roundtrip(a, "strs")
                    t = par["STRS"]
                    if len(t) != n:
                        return "row count %d != %d" % (len(t), n), None
                    for i in range(n):
                        if t["s1"][i] != a["s1"][i] or t["s2"][i] != a["s2"][i] or t["k"][i] != i:
                            return "row %d: wrote %r read %r" % (i, (a["s1"][i], a["s2"][i]), (t["s1"][i], t["s2"][i])), (a["s1"][i].decode(), a["s2"][i].decode())
                except Exception as e:
                    return "raised %s: %s" % (type(e).__name__, e), None
                return None, None
            # one file per chunk of strings (each string appears in both positions where allowed)
            chunk = 64
            for off in range(0, len(S_any), chunk):
                count[0] += 1
                first = S_any[off:off + chunk]
                last = [s for s in first if not s.endswith("\\")] or [""]
                msg, pair = check_strings(first, last)
                if msg:
                    # locate the individual offender
                    for s in first:
                        m2, _ = check_strings([s], ["x"])
                        if m2:
                            bad("string_cell_first_column", m2, dict(cell=s, position="first"))
                            break
                    else:
                        for s in last:
                            m2, _ = check_strings(["x"], [s])
                            if m2:
                                bad("string_cell_last_column", m2, dict(cell=s, position="last"))
                                break
                        else:
                            bad("string_cell_first_column", msg, dict(chunk=off))
            # ---- string array elements --------------------------------------------------------
            S_elem = _strings(min(L, 2), allow_close_brace=False)
            for off in range(0, len(S_elem), 32):
                count[0] += 1
                part = S_elem[off:off + 32]
                n = len(part)
                a = np.zeros((n,), dtype=[("arr", "S%d" % w, (2,)), ("k", "i4")])
                for i, s in enumerate(part):
                    a[i] = ((s.encode(), part[(i + 1) % n].encode()), i)
                try:
                    par, text = _roundtrip(a, "sarr")
                    t = par["SARR"]
                    for i in range(n):
                        if list(t["arr"][i]) != list(a["arr"][i]):
                            bad("string_array_element", "wrote %r read %r" % (list(a["arr"][i]), list(t["arr"][i])), dict(element=part[i]))
                            break
                except Exception as e:
                    bad("string_array_element", "raised %s: %s" % (type(e).__name__, e), dict(chunk=off))
            # ---- numeric kinds, widths, lengths, extremes, special floats -------------------------
            specials = {"f4": [0.0, -0.0, 1.0e-45, 3.4028235e38, -3.4028235e38, 1.17549435e-38, np.inf, -np.inf, np.nan, 0.1, 1 / 3],
                        "f8": [0.0, -0.0, 5e-324, 1.7976931348623157e308, -1.7976931348623157e308, 2.2250738585072014e-308, np.inf, -np.inf, np.nan, 0.1, 1 / 3],
                        "i2": [0, -1, 32767, -32768], "i4": [0, -1, 2 ** 31 - 1, -2 ** 31], "i8": [0, -1, 2 ** 63 - 1, -2 ** 63]}
            for kind, vals in specials.items():
                for ln in (0, 1, 2, 3):
                    count[0] += 1
                    dt = [("v", kind) if ln == 0 else ("v", kind, (ln,)), ("tail", "i2")]
                    a = np.zeros((len(vals),), dtype=dt)
                    for i, v in enumerate(vals):
                        a["v"][i] = v if ln == 0 else [v] * ln
                        a["tail"][i] = i
                    try:
                        par, text = _roundtrip(a, "nums")
                        t = par["NUMS"]
                        if t.dtype["v"] != a.dtype["v"] or not _same_bits(t["v"], a["v"]) or list(t["tail"]) != list(a["tail"]):
                            bad("numeric_bit_identical", "%s[%d]: wrote %r read %r (dtype %s)" % (kind, ln, a["v"].tolist(), t["v"].tolist(), t.dtype["v"]), dict(kind=kind, length=ln))
                    except Exception as e:
                        bad("numeric_bit_identical", "%s[%d] raised %s: %s" % (kind, ln, type(e).__name__, e), dict(kind=kind, length=ln))
            for sw in range(1, 7):
                for ln in (0, 2):
                    for uni in ("S", "U"):
                        count[0] += 1
                        dt = [("s", "%s%d" % (uni, sw)) if ln == 0 else ("s", "%s%d" % (uni, sw), (ln,)), ("n", "i8")]
                        a = np.zeros((2,), dtype=dt)
                        v = "x" * sw
                        a["s"][0] = v if ln == 0 else [v] * ln
                        a["s"][1] = "y" if ln == 0 else ["y"] * ln
                        a["n"] = [1, 2]
                        try:
                            par, text = _roundtrip(a, "widths")
                            t = par["WIDTHS"]
                            got = [x.decode() if isinstance(x, bytes) else str(x) for x in np.asarray(t["s"]).ravel()]
                            want = [x.decode() if isinstance(x, bytes) else str(x) for x in np.asarray(a["s"]).ravel()]
                            base = t.dtype["s"].subdtype[0] if t.dtype["s"].subdtype else t.dtype["s"]
                            # S<w> keeps its width; U<w> is documented to come back as bytes (its declared width is the numpy itemsize)
                            width_ok = (base.kind == "S" and base.itemsize == sw) if uni == "S" else (base.kind == "S" and base.itemsize >= sw)
                            if got != want or not width_ok or t["s"].shape != a["s"].shape:
                                bad("string_width_and_shape", "%s%d[%d]: %r vs %r dtype %s" % (uni, sw, ln, got, want, t.dtype["s"]), dict(width=sw, length=ln, kind=uni))
                        except Exception as e:
                            bad("string_width_and_shape", "%s%d[%d] raised %s: %s" % (uni, sw, ln, type(e).__name__, e), dict(width=sw, length=ln, kind=uni))
            # ---- zero rows, column order, several tables --------------------------------------------
            for nrows in (0, 1, 3):
                for ntab in (1, 2, 3):
                    count[0] += 1
                    tabs, names = [], []
                    for k in range(ntab):
                        a = np.zeros((nrows,), dtype=[("zz%d" % k, "f8"), ("aa", "i4"), ("mm", "S3")])
                        a["aa"] = np.arange(nrows) + 10 * k
                        a["mm"] = [("r%d" % i).encode() for i in range(nrows)]
                        tabs.append(a)
                        names.append(["first", "second", "third"][k])
                    try:
                        par, text = _roundtrip(tuple(tabs), names)
                        for k in range(ntab):
                            t = par[names[k].upper()]
                            if list(par.columns(names[k].upper())) != list(tabs[k].dtype.names) or len(t) != nrows or \
                                    list(t["aa"]) != list(tabs[k]["aa"]) or list(t["mm"]) != list(tabs[k]["mm"]):
                                bad("tables_names_order_rows", "table %s: columns %s rows %d" % (names[k], par.columns(names[k].upper()), len(t)), dict(nrows=nrows, ntab=ntab))
                        if sorted(par.tables()) != sorted(n.upper() for n in names):
                            bad("tables_names_order_rows", "tables %s" % par.tables(), dict(nrows=nrows, ntab=ntab))
                    except Exception as e:
                        bad("tables_names_order_rows", "raised %s: %s" % (type(e).__name__, e), dict(nrows=nrows, ntab=ntab))
            # ---- any mix and order of column kinds; column names related to each other (case variants, prefixes, substrings) -----
            import random as _random
            rng = _random.Random(seed * 101 + 7)
            kinds_pool = ["i2", "i4", "i8", "f4", "f8", "S1", "S6", "S10"]
            related = [["z", "Z"], ["r", "R", "rr"], ["class", "CLASS", "subclass"], ["ra", "ra_err", "extra", "RA"], ["flux", "fluxes", "modelflux", "Flux"],
                       ["id", "ID", "objid", "Id"], ["x", "x1", "x10", "X"]]
            for rep in range(24 if tier == "quick" else 240):
                count[0] += 1
                names_ = list(rng.choice(related))
                rng.shuffle(names_)
                ncol = rng.randint(2, len(names_))
                dt = []
                for nm in names_[:ncol]:
                    kd = rng.choice(kinds_pool)
                    ln = rng.choice([0, 0, 1, 2, 5])
                    dt.append((nm, kd) if ln == 0 else (nm, kd, (ln,)))
                # two columns that differ only in case never get the same type, so a mixed-up lookup is visible
                nrow = rng.randint(0, 3)
                a = np.zeros((nrow,), dtype=dt)
                for nm in a.dtype.names:
                    base = a.dtype[nm].base
                    flat = a[nm].reshape(-1)
                    for q in range(flat.size):
                        flat[q] = (("v%d" % rng.randint(0, 99))[:base.itemsize].encode() if base.kind == "S" else
                                   rng.choice([0, 1, -1, 7, 123]) if base.kind == "i" else rng.choice([0.5, -1.25, 1 / 3, 1e30 if base.itemsize == 8 else 1e30 % 3e38]))
                sname = rng.choice(["mystruct", "Related", "T1"])
                try:
                    par, text = _roundtrip(a, sname)
                    t = par[sname.upper()]
                    okc = list(par.columns(sname.upper())) == list(a.dtype.names) and len(t) == nrow
                    for nm in a.dtype.names:
                        okc = okc and t.dtype[nm] == a.dtype[nm] and _same_bits(t[nm], a[nm])
                    if not okc:
                        bad("mixed_columns_with_related_names", "columns %s: wrote dtype %s, read %s" % (list(a.dtype.names), a.dtype, t.dtype), dict(dtype=str(a.dtype), rows=nrow))
                except Exception as e:
                    bad("mixed_columns_with_related_names", "raised %s: %s (dtype %s)" % (type(e).__name__, e, a.dtype), dict(dtype=str(a.dtype), rows=nrow))
            # ---- header pairs ------------------------------------------------------------------------
            hdr_alpha = ["a", " ", "\t", ";", "{", "}", "\\", '"', "\x0c"]
            hv = [""]
            for n in range(1, L + 1):
                hv += ["".join(t) for t in itertools.product(hdr_alpha, repeat=n)]
            a = np.zeros((1,), dtype=[("x", "i4")])
            hexcl = excl.get("header_value_text")
            if hexcl:
                hv = [v for v in hv if not _hdr_known(v)]       # the recorded class would also disturb neighbouring pairs in the same file
            for off in range(0, len(hv), 40):
                count[0] += 1
                part = {("k%d" % (off + j)): v for j, v in enumerate(hv[off:off + 40])}
                try:
                    par, text = _roundtrip(a, "h", hdr=part)
                    for k, v in part.items():
                        if hexcl and _hdr_known(v):
                            continue
                        if par[k] != str(v):
                            bad("header_value_text", "header %r: wrote %r read %r" % (k, v, par[k]), dict(value=v))
                            break
                except Exception as e:
                    bad("header_value_text", "raised %s: %s" % (type(e).__name__, e), dict(chunk=off))
            for v in (17, 2.5, True, np.float32(0.1)):
                count[0] += 1
                par, text = _roundtrip(a, "h", hdr={"num": v})
                if par["num"] not in (str(v), format(v)):
                    bad("header_value_text", "header number %r read %r" % (v, par["num"]), dict(value=repr(v)))
            # ---- astropy Table entry points -------------------------------------------------------------
            with tempfile.TemporaryDirectory() as tmp, warnings.catch_warnings():
                warnings.simplefilter("ignore")
                count[0] += 1
                tb = Table({"a": np.array([1, 2], dtype="i4"), "s": np.array(["p q", "#"], dtype="S3"), "f": np.array([[1.5, np.inf], [np.nan, -0.0]], dtype="f4")})
                tb.meta = {"key": "value text"}
                fn = os.path.join(tmp, "tab.par")
                try:
                    write_table_yanny(tb, fn, tablename="tt")
                    back = read_table_yanny(fn, tablename="tt")
                    if list(back["a"]) != [1, 2] or np.asarray(back["s"]).tolist() != [b"p q", b"#"] or not _same_bits(np.asarray(back["f"]), np.asarray(tb["f"])) \
                            or back.meta.get("key") != "value text" or back.colnames != tb.colnames:
                        bad("table_entry_points", "Table round trip differs: %s" % back, {})
                    from astropy.io.registry import register_identifier, register_reader, register_writer
                    from pydl.pydlutils.yanny import is_yanny
                    for reg, fnc in ((register_identifier, is_yanny), (register_reader, read_table_yanny), (register_writer, write_table_yanny)):
                        try:
                            reg("yanny", Table, fnc)       # "must be activated by hand" (module docstring)
                        except Exception:
                            pass
                    tb.write(os.path.join(tmp, "reg.par"), format="yanny", tablename="tt")
                    b2 = Table.read(os.path.join(tmp, "reg.par"), format="yanny", tablename="tt")
                    if list(b2["a"]) != [1, 2] or b2.colnames != tb.colnames:
                        bad("table_entry_points", "registered reader/writer differs", {})
                except Exception as e:
                    bad("table_entry_points", "raised %s: %s" % (type(e).__name__, e), {})
            # ---- unsupported kinds are refused, nothing is written ----------------------------------------
            for kind in ("u1", "u2", "u4", "u8", "i1", "b1", "f2", "c8", "c16"):
                count[0] += 1
                with tempfile.TemporaryDirectory() as tmp:
                    fn = os.path.join(tmp, "bad.par")
                    a = np.zeros((2,), dtype=[("ok", "i4"), ("v", kind)])
                    try:
                        write_ndarray_to_yanny(fn, a)
                        bad("unsupported_kind_refused", "%s was written: %s" % (kind, open(fn).read()[-80:]), dict(kind=kind))
                    except Exception:
                        if os.path.exists(fn):
                            bad("unsupported_kind_refused", "%s refused but a file was left behind" % kind, dict(kind=kind))
            # ---- enums ----------------------------------------------------------------------------------
            count[0] += 1
            a = np.zeros((3,), dtype=[("flavor", "S10"), ("n", "i4")])
            a["flavor"] = [b"UP", b"DOWN", b"UP"]
            try:
                par, text = _roundtrip(a, "en", enums={"flavor": ("FLAVOR_T", ("UP", "DOWN", "STRANGE"))})
                if [x for x in par["EN"]["flavor"]] != [b"UP", b"DOWN", b"UP"] or par.type("EN", "flavor") != "FLAVOR_T":
                    bad("enum_labels", "enum column read %s type %s" % (list(par["EN"]["flavor"]), par.type("EN", "flavor")), {})
            except Exception as e:
                bad("enum_labels", "raised %s: %s" % (type(e).__name__, e), {})
            # ---- the same enum type name declared differently by successive files of one process (nothing may be remembered between objects) ----
            for labels, vals in ((("OK", "BAD"), ["OK", "BAD", "OK"]), (("OK", "INCOMPLETE", "FAILED"), ["INCOMPLETE", "OK", "FAILED"]), (("Z",), ["Z", "Z", "Z"])):
                count[0] += 1
                a = np.zeros((3,), dtype=[("status", "S12"), ("n", "i4")])
                a["status"] = [v.encode() for v in vals]
                try:
                    par, text = _roundtrip(a, "run", enums={"status": ("STATUS", labels)})
                    got = [x.decode() for x in par["RUN"]["status"]]
                    if got != vals:
                        bad("enum_labels", "enum STATUS %s: wrote %s read %s" % (labels, vals, got), dict(labels=list(labels)))
                except Exception as e:
                    bad("enum_labels", "raised %s: %s" % (type(e).__name__, e), dict(labels=list(labels)))
            # ---- several tables whose names are suffixes / prefixes of each other and share column names of different types --------------
            for names in (("rawspec", "spec"), ("spec", "rawspec"), ("obj", "subobj", "bj"), ("Ab", "b", "AB2")):
                count[0] += 1
                kinds_ = ["f4", "f8", "i2", "i8"]
                tabs = []
                for k, nm in enumerate(names):
                    t_ = np.zeros((2,), dtype=[("flux", kinds_[k % 4]), ("id", kinds_[(k + 2) % 4]), ("tag", "S%d" % (3 + k))])
                    t_["flux"] = [1, 2] if kinds_[k % 4][0] == "i" else [1.0 / 3.0, 1.0e10 / 7.0]
                    t_["id"] = [7, 8] if kinds_[(k + 2) % 4][0] == "i" else [0.1, 0.7]
                    t_["tag"] = [b"x" * (3 + k), b"y"]
                    tabs.append(t_)
                try:
                    par, text = _roundtrip(tuple(tabs), list(names))
                    for nm, t_ in zip(names, tabs):
                        r_ = par[nm.upper()]
                        if r_.dtype != t_.dtype or not all(_same_bits(r_[c_], t_[c_]) for c_ in t_.dtype.names):
                            bad("tables_names_order_rows", "tables %s: %s wrote %s read %s" % (names, nm, t_.dtype, r_.dtype), dict(names=list(names)))
                            break
                except Exception as e:
                    bad("tables_names_order_rows", "tables %s raised %s: %s" % (names, type(e).__name__, e), dict(names=list(names)))
            # ---- Table metadata of the usual scalar kinds come back as their text form ----------------------------------------------------
            with tempfile.TemporaryDirectory() as tmp, warnings.catch_warnings():
                warnings.simplefilter("ignore")
                count[0] += 1
                tb = Table({"a": np.array([1, 2], dtype="i4")})
                meta = {"name": "abc def", "version": 3, "mjd": np.int64(54321), "exptime": np.float32(0.5), "airmass": 1.25, "flag": True, "ratio": np.float64(2.5)}
                tb.meta = dict(meta)
                fn = os.path.join(tmp, "meta.par")
                try:
                    write_table_yanny(tb, fn, tablename="m")
                    back = read_table_yanny(fn, tablename="m")
                    want = {k: str(v) for k, v in meta.items()}
                    gotm = {k: back.meta.get(k) for k in meta}
                    if gotm != want:
                        bad("table_entry_points", "Table metadata wrote %s read %s" % (want, gotm), {})
                except Exception as e:
                    bad("table_entry_points", "metadata round trip raised %s: %s" % (type(e).__name__, e), {})
            res["paths"] = res["native_runs"] = count[0]
            kinds = ["string_cell_first_column", "string_cell_last_column", "string_array_element", "numeric_bit_identical", "string_width_and_shape",
                     "tables_names_order_rows", "mixed_columns_with_related_names", "header_value_text", "table_entry_points", "unsupported_kind_refused", "enum_labels"]
            for kd in kinds:
                b = fails.get(kd, [])
                d = dict(name="write_read_roundtrip:" + kd, path=0, status="unsat" if not b else "sat", secs=0.0, backend="native-exhaustive", size=0,
                         note="" if not b else b[0][0])
                if b:
                    d.update(inputs=dict(clause=kd, **{k: (v if isinstance(v, (int, str, float, bool)) or v is None else repr(v)) for k, v in b[0][1].items()}),
                             model=str(b[:3])[:1500], reason="")
                res["obligations"].append(d)
            res["vacuity"] = dict(cases=count[0], strings=len(S_any))
        except Exception:
            res["crashed"] = traceback.format_exc()
        res["wall_s"] = time.time() - t0
        return res

    def native_replay(self, inputs):
        kind = inputs.get("clause")
        try:
            if kind == "header_value_text" and "value" in inputs:
                a = np.zeros((1,), dtype=[("x", "i4")])
                par, text = _roundtrip(a, "h", hdr={"k": inputs["value"]})
                return (par["k"] == str(inputs["value"]), "header value %r read back as %r" % (inputs["value"], par["k"]))
            if kind in ("string_cell_first_column", "string_cell_last_column") and "cell" in inputs:
                s = inputs["cell"]
                a = np.zeros((1,), dtype=[("s1", "S8"), ("k", "i4"), ("s2", "S8")])
                a[0] = ((s if inputs["position"] == "first" else "x").encode(), 0, (s if inputs["position"] == "last" else "x").encode())
                par, text = _roundtrip(a, "strs")
                t = par["STRS"]
                ok = len(t) == 1 and t["s1"][0] == a["s1"][0] and t["s2"][0] == a["s2"][0]
                return (ok, "cell %r (%s column) read back as %r" % (s, inputs["position"], (t["s1"].tolist(), t["s2"].tolist())))
        except Exception as e:
            return (False, "raised %s: %s" % (type(e).__name__, e))
        return (False, "re-run ./check C01 (inputs %s)" % (inputs,))


def _hdr_known(v):
    """known-finding class for header values (see known_findings.jsonl): leading/trailing blanks are stripped; a value that is literally
    empty-brace pairs is rewritten"""
    return v != v.strip() or "{{}}" in v.replace(" ", "").replace("\t", "") or v == "" or v.rstrip().endswith("\\")
