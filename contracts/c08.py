"""C08 -- B-spline evaluation equals the Cox-de Boor spline of its knots and coefficients."""
import types
import numpy as np
import z3
from pyvc.harness import FunctionContract, register, JobResult
from pyvc.proxies import SInt, SReal, SBool, sym_int, sym_real
from pyvc import arrays as A
from pyvc import spec as S

EXPLANATION = ("intrv: interval contract for all sizes (two loop invariants). bsplvn: the real method executed on symbolic knots "
               "equals the Cox-de Boor recursion (exact rational-function identity), sums to one, is non-negative, per order.")
UNDECIDED = ["knot construction in bspline.__init__ (float32 arithmetic, 'covers the data range to single-precision rounding')",
             "action(): lower/upper row ranges via uniq (scatter assignments) -- covered only through the bounded value() job",
             "value(): un-sort and per-interval dot products for all sizes -- decided only as a bounded stand-in (see coverage.bounded)"]


class _Sel:
    """self.breakpoints stand-in: indexing with the mask yields the good breakpoints (an opaque non-decreasing array)"""
    def __init__(self, gb):
        self.gb = gb

    def __getitem__(self, key):
        return self.gb


def _sorted(a, n):
    return S.forall(0, n, lambda i: S.forall(i, n, lambda j: S.el(a, i) <= S.el(a, j)))


@register("C08")
class Intrv(FunctionContract):
    name = "intrv"
    target = "pydl.pydlutils.bspline:bspline.intrv"
    level = "P"
    expect_loops = 2
    assumptions = ["self.breakpoints[self.mask] abstracted as 'the good breakpoints' gb (non-decreasing, any length >= 2*nord)",
                   "A1 floats as reals", "int32 index arithmetic as mathematical integers"]

    def inputs(self):
        m, nx, nord = sym_int("m"), sym_int("nx"), sym_int("nord")
        gb = A.SArr.symbolic(A.REAL, m.z, "gb")
        x = A.SArr.symbolic(A.REAL, nx.z, "x")
        return dict(gb=gb, nord=nord, x=x)

    def requires(self, gb, nord, x):
        m, nx = S.size(gb), S.size(x)
        return S.AND(nord >= 1, m >= 2 * nord, nx >= 0, _sorted(gb, m), _sorted(x, nx))

    def call(self, fn, gb, nord, x):
        if isinstance(gb, A.SArr):
            me = types.SimpleNamespace(breakpoints=_Sel(gb), mask=None, nord=nord)
            return fn(me, x)
        from pydl.pydlutils.bspline import bspline
        b = bspline.__new__(bspline)
        b.breakpoints, b.mask, b.nord = gb, np.ones(len(gb), dtype=bool), nord
        return b.intrv(x)

    @staticmethod
    def _elem(gb, nord, n, x, indx, i):
        k = S.el(indx, i)
        return S.AND(k >= nord - 1, k <= n - 1,
                     S.OR(S.el(x, i) <= S.el(gb, k + 1), k == n - 1),
                     S.OR(k == nord - 1, S.el(x, i) > S.el(gb, k)))

    def ensures(self, result, gb, nord, x):
        m, nx = S.size(gb), S.size(x)
        n = m - nord
        return {
            "length": S.size(result) == nx,
            "interval_of_each_x": S.forall(0, nx, lambda i: self._elem(gb, nord, n, x, result, i)),
            "non_decreasing": S.forall(0, nx - 1, lambda i: S.el(result, i) <= S.el(result, i + 1)),
        }

    def loop_specs(self, a):
        gb, nord, x = a["gb"], a["nord"], a["x"]
        m, nx = S.size(gb), S.size(x)
        n = m - nord

        def outer(v):
            i, il = v.i, v.ileft
            return [v.indx.slen() == nx, il >= nord - 1, il <= n - 1,
                    S.forall(0, i, lambda j: S.AND(self._elem(gb, nord, n, x, v.indx, j), S.el(v.indx, j) <= il),
                             patterns=lambda j: [S.el(v.indx, j)]),
                    S.forall(0, i - 1, lambda j: S.el(v.indx, j) <= S.el(v.indx, j + 1), patterns=lambda j: [S.el(v.indx, j)]),
                    S.OR(il == nord - 1, S.AND(i >= 1, S.el(x, i - 1) > S.el(gb, il)))]

        def inner(v):
            i, il = v.i, v.ileft
            return [il >= nord - 1, il <= n - 1, S.OR(il == nord - 1, S.el(x, i) > S.el(gb, il)),
                    S.forall(0, i, lambda j: S.el(v.indx, j) <= il, patterns=lambda j: [S.el(v.indx, j)])]
        return {0: dict(inv=outer), 1: dict(inv=inner)}

    def samples(self, rng):
        for _ in range(200):
            nord = rng.randint(1, 4)
            m = rng.randint(2 * nord, 2 * nord + 5)
            gb = np.sort(np.array([rng.choice([0.0, 1.0, 2.0, 2.0, 3.0, 4.5, 5.0, 7.0]) + rng.choice([0, 0, 0.25]) for _ in range(m)]))
            nx = rng.randint(0, 6)
            x = np.sort(np.array([rng.uniform(-1, 8) if rng.random() < 0.7 else rng.choice(list(gb)) for _ in range(nx)]))
            yield dict(gb=gb, nord=nord, x=x)


# ---------------------------------------------------------------------------
# bsplvn: real method on symbolic knots (sympy), per order
# ---------------------------------------------------------------------------
def _cdb_spec(sym, t, x, k, ileft):
    """Cox-de Boor recursion (textbook), returns [B_{ileft-k+1,k}, ..., B_{ileft,k}] at x in [t_ileft, t_ileft+1]"""
    B = {i: (sym.Integer(1) if i == ileft else sym.Integer(0)) for i in range(-1, len(t) + 1)}
    for j in range(1, k):
        nB = {}
        for i in range(ileft - j, ileft + 1):
            term = sym.Integer(0)
            if B.get(i, 0) != 0:
                term += (x - t[i]) / (t[i + j] - t[i]) * B[i]
            if B.get(i + 1, 0) != 0:
                term += (t[i + j + 1] - x) / (t[i + j + 1] - t[i + 1]) * B[i + 1]
            nB[i] = term
        B = {i: nB.get(i, sym.Integer(0)) for i in range(-1, len(t) + 1)}
    return [B[i] for i in range(ileft - k + 1, ileft + 1)]


def _to_z3(sym, e, env):
    if e.is_Symbol:
        return env[str(e)]
    if e.is_Integer:
        return z3.RealVal(int(e))
    if e.is_Rational:
        return z3.RealVal(str(e))
    if e.is_Add:
        r = _to_z3(sym, e.args[0], env)
        for a in e.args[1:]:
            r = r + _to_z3(sym, a, env)
        return r
    if e.is_Mul:
        r = _to_z3(sym, e.args[0], env)
        for a in e.args[1:]:
            r = r * _to_z3(sym, a, env)
        return r
    if e.is_Pow:
        b, ex = e.args
        if ex.is_Integer and int(ex) > 0:
            r = _to_z3(sym, b, env)
            out = r
            for _ in range(int(ex) - 1):
                out = out * r
            return out
        if ex.is_Integer and int(ex) < 0:
            r = _to_z3(sym, b, env)
            out = r
            for _ in range(-int(ex) - 1):
                out = out * r
            return 1 / out
    raise ValueError("cannot translate %r" % (e,))


@register("C08")
class Bsplvn:
    """bsplvn == Cox-de Boor, sums to one, non-negative: the REAL method run on numpy object arrays of sympy symbols"""
    name = "bsplvn"
    prop = "C08"
    target = "pydl.pydlutils.bspline:bspline.bsplvn"
    level = "C"

    def run_job(self, tier, seed, exclusions):
        import time
        import traceback
        import sympy as sym
        from pyvc import amode
        from pyvc.engine import Engine
        t0 = time.time()
        res = JobResult(job=self.name, target=self.target, level=self.level, prop="C08", obligations=[], failures=[], crashed=None,
                        bound="per order nord = 1..%d; one generic row (the body is row-wise), interval index fixed by index translation" % 6,
                        paths=0, solver_s=0.0, queries=0, native_runs=0, native_failures=[], vacuity=None,
                        assumptions=["A1 floats as reals", "A3 row-wise numpy operations are uniform over rows: one generic row is verified",
                                     "index translation: the interval index is fixed to nord-1 on a window of 2*nord symbolic knots",
                                     "knots non-decreasing with a non-degenerate interval t[ileft] < t[ileft+1] containing x",
                                     "A6 sympy ring normalisation (cancel) is correct; z3 NRA for the sign obligations"])
        try:
            Engine.current = Engine("bsplvn")
            L = amode.load(self.target, loops={})
            res["rewritten_source"] = L.rewritten_source
            res["n_loops"] = L.n_loops
            maxord = 6       # order 7 takes > 15 min of polynomial expansion: same bound in both tiers
            for k in range(1, maxord + 1):
                t = sym.symbols("t0:%d" % (2 * k), real=True)
                x = sym.Symbol("x", real=True)
                ileft = k - 1
                me = types.SimpleNamespace(breakpoints=_Sel(np.array(list(t), dtype=object)), mask=None, nord=k)
                xa = np.empty((1,), dtype=object)
                xa[0] = x
                out = L.fn(me, xa, np.array([ileft]))
                res["paths"] += 1
                got = [out[0, l] for l in range(k)]
                want = _cdb_spec(sym, t, x, k, ileft)
                ts = time.time()
                ok_shape = out.shape == (1, k)
                res["obligations"].append(_ob("bsplvn:shape[nord=%d]" % k, ok_shape, "polyid"))
                def zero(e):
                    # exact identity test: numerator of the combined fraction expands to the zero polynomial
                    e = sym.sympify(e)
                    e = sym.nsimplify(e, rational=True) if e.has(sym.Float) else e
                    num, den = sym.fraction(sym.together(e))
                    return sym.expand(num)
                for l in range(k):
                    d = zero(got[l] - want[l])
                    res["obligations"].append(_ob("bsplvn:cox_de_boor[nord=%d]" % k, d == 0, "polyid", "column %d differs from B_{ileft-%d+%d,%d}: %s" % (l, k - 1, l, k, str(d)[:200])))
                tot = zero(sum(got) - 1)
                res["obligations"].append(_ob("bsplvn:partition_of_unity[nord=%d]" % k, tot == 0, "polyid", str(tot)[:200]))
                res["solver_s"] += time.time() - ts
                # non-negativity: by induction over the recursion levels the textbook B's are sums of products of
                # non-negative factors; here each level's weights are proved non-negative (z3), which with the identity above
                # gives bsplvn >= 0
                env = {str(s): z3.Real(str(s)) for s in list(t) + [x]}
                hyp = [env["t%d" % i] <= env["t%d" % (i + 1)] for i in range(2 * k - 1)]
                hyp += [env["t%d" % ileft] < env["t%d" % (ileft + 1)], env["t%d" % ileft] <= env["x"], env["x"] <= env["t%d" % (ileft + 1)]]
                for j in range(1, k):
                    for i in range(ileft - j, ileft + 1):
                        ws = []
                        if i >= ileft - j + 1:       # B_{i,j} is non-zero only for i in [ileft-j+1, ileft]
                            ws.append((x - t[i]) / (t[i + j] - t[i]))
                        if i + 1 <= ileft:
                            ws.append((t[i + j + 1] - x) / (t[i + j + 1] - t[i + 1]))
                        for w in ws:
                            s = z3.Solver()
                            s.set("timeout", 20000)
                            for h in hyp:
                                s.add(h)
                            num, den = sym.fraction(w)
                            s.add(z3.Not(z3.And(_to_z3(sym, den, env) > 0, _to_z3(sym, num, env) >= 0)))
                            ts = time.time()
                            r = s.check()
                            res["solver_s"] += time.time() - ts
                            res["queries"] += 1
                            res["obligations"].append(_ob("bsplvn:weights_nonneg[nord=%d]" % k, r == z3.unsat, "z3", "weight %s" % w))
            res["vacuity"] = dict(orders=maxord)
        except Exception:
            res["crashed"] = traceback.format_exc()
        res["wall_s"] = time.time() - t0
        return res


def _ob(name, ok, backend, note=""):
    d = dict(name=name, path=0, status="unsat" if ok else "sat", secs=0.0, note="" if ok else note, backend=backend, size=0)
    if not ok:
        d.update(inputs=None, model=note, reason="")
    return d


# ---------------------------------------------------------------------------
# value(): bounded stand-in -- the REAL value/action/intrv/bsplvn/uniq chain on symbolic reals
# ---------------------------------------------------------------------------
def _cdb_local(t, x, k, j):
    """textbook Cox-de Boor values [B_{j-k+1,k}(x), ..., B_{j,k}(x)] for x in [t_j, t_{j+1}] (dual: floats or SReal)"""
    B = {j: 1}
    for lev in range(1, k):
        nB = {}
        for i in range(j - lev, j + 1):
            term = 0
            if i in B:
                term = term + (x - t[i]) / (t[i + lev] - t[i]) * B[i]
            if i + 1 in B:
                term = term + (t[i + lev + 1] - x) / (t[i + lev + 1] - t[i + 1]) * B[i + 1]
            nB[i] = term
        B = nB
    return [B[i] for i in range(j - k + 1, j + 1)]


@register("C08")
class ValueBounded(FunctionContract):
    name = "value_bounded"
    target = "pydl.pydlutils.bspline:bspline.value"
    level = "B"
    bound = "nord 1..3, 1-2 intervals (2*nord+1 .. 2*nord+2 knots), 1..3 evaluation points in any order; all real values of knots (strictly increasing), coefficients and points"
    assumptions = ["A1 floats as reals", "knots strictly increasing, no masked breakpoint", "numpy object-array semantics = float-array semantics for slicing/dot/argsort"]
    max_paths = 20000

    def cases(self, tier):
        out = []
        for nord in (1, 2, 3):
            for extra in ((1,) if tier == "quick" else (1, 2)):
                for nx in ((1, 2) if nord == 3 else (1, 2, 3)):      # order 3 with 3 points: the NRA queries time out (undecided), not enumerated
                    out.append((nord, extra, nx))
        return out

    def inputs(self):
        nord, extra, nx = self.case
        m = 2 * nord + extra
        t = np.empty((m,), dtype=object)
        for i in range(m):
            t[i] = sym_real("t%d" % i)
        c = np.empty((m - nord,), dtype=object)
        for i in range(m - nord):
            c[i] = sym_real("c%d" % i)
        x = np.empty((nx,), dtype=object)
        for i in range(nx):
            x[i] = sym_real("x%d" % i)
        return dict(t=t, c=c, x=x, nord=nord)

    def requires(self, t, c, x, nord):
        return S.AND(*[t[i] < t[i + 1] for i in range(len(t) - 1)])

    def call(self, fn, t, c, x, nord):
        from pydl.pydlutils.bspline import bspline
        b = bspline.__new__(bspline)
        b.breakpoints, b.nord, b.npoly = t, nord, 1
        b.mask = np.ones((len(t),), dtype=bool)
        b.coeff = c
        b.xmin, b.xmax, b.funcname = 0.0, 1.0, "legendre"
        self._x0 = x.copy()
        if fn.__name__ == "value" and getattr(fn, "__self__", None) is None and fn.__code__.co_varnames[0] == "self":
            return fn(b, x)
        return b.value(x)

    def native_fn(self):
        from pydl.pydlutils.bspline import bspline
        return bspline.value

    def ensures(self, result, t, c, x, nord):
        yy, mask = result
        m = len(t)
        n = m - nord
        out = {"shapes": (tuple(np.shape(yy)) == tuple(np.shape(x))) and (tuple(np.shape(mask)) == tuple(np.shape(x)))}
        for i in range(len(x)):
            xi = x[i]
            outside = S.OR(xi < t[nord - 1], xi > t[n])
            out["mask_false_exactly_outside[%d]" % i] = S.iff(S.NOT(bool(mask[i]) if not S.is_sym(mask[i]) else mask[i]), outside)
            alts = []
            for j in range(nord - 1, n):
                Bs = _cdb_local(t, xi, nord, j)
                val = 0
                for l in range(nord):
                    val = val + Bs[l] * c[j - nord + 1 + l]
                alts.append(S.AND(t[j] <= xi, xi <= t[j + 1], S.eq(yy[i], val)))
            out["value_is_the_spline_in_caller_order[%d]" % i] = S.implies(S.NOT(outside), S.OR(*alts))
        out["input_unmodified"] = all(a is b_ for a, b_ in zip(x, self._x0)) if x.dtype == object else bool(np.array_equal(x, self._x0))
        return out

    def samples(self, rng):
        for _ in range(150):
            nord = rng.randint(1, 4)
            m = 2 * nord + rng.randint(1, 4)
            t = np.cumsum(np.array([rng.uniform(0.3, 1.5) for _ in range(m)]))
            c = np.array([rng.uniform(-2, 2) for _ in range(m - nord)])
            nx = rng.randint(1, 6)
            x = np.array([rng.uniform(t[0] - 0.5, t[-1] + 0.5) for _ in range(nx)])
            yield dict(t=t, c=c, x=x, nord=nord)


@register("C08")
class KnotConstruction:
    """bspline.__init__: for every way of specifying breakpoints the knot vector is non-decreasing, covers the data range
    (to single-precision rounding) and carries nord-1 extra knots on each side (bounded, numerical)"""
    name = "knot_construction"
    prop = "C08"
    target = "pydl.pydlutils.bspline:bspline.__init__"
    level = "B"
    KINDS = ("non_decreasing", "covers_data_range", "nord_minus_one_extra_knots_each_side", "attributes_consistent", "no_unexpected_exception")

    def _cases(self, rng, n):
        for rep in range(n):
            nx = rng.choice([2, 3, 5, 11, 21, 50])
            kind = rng.choice(["uniform", "clustered", "unsorted"])
            if kind == "uniform":
                x = np.linspace(rng.uniform(-5, 5), rng.uniform(6, 20), nx)
            else:
                x = np.array(sorted(rng.choice([0.0, 1.0, 5.0]) + rng.uniform(0, 3) for _ in range(nx)))
            if kind == "unsorted":
                x = x.copy()
                rng.shuffle(x)
            nord = rng.randint(1, 6)
            lo, hi = float(x.min()), float(x.max())
            opt = rng.choice(["bkpt", "placed", "placed_one_in_range", "placed_none_in_range", "bkspace", "bkspace_huge", "nbkpts", "nbkpts_1", "everyn", "everyn_big"])
            kw = {}
            if opt == "bkpt":
                a_, b_ = lo + rng.choice([-1, 0, 0.5]), hi + rng.choice([-0.5, 0, 1])
                if b_ <= a_:
                    a_, b_ = lo, hi + (1.0 if hi == lo else 0.0)
                kw["bkpt"] = np.linspace(a_, b_, rng.randint(2, 6)).astype("f")      # explicit breakpoints are given in increasing order
            elif opt == "placed":
                kw["placed"] = np.sort(np.array([rng.uniform(lo - 1, hi + 1) for _ in range(rng.randint(2, 6))]))
            elif opt == "placed_one_in_range":
                kw["placed"] = np.array([lo - 5.0, (lo + hi) / 2.0, hi + 5.0])
            elif opt == "placed_none_in_range":
                kw["placed"] = np.array([lo - 5.0, hi + 5.0])
            elif opt == "bkspace":
                kw["bkspace"] = (hi - lo) / rng.choice([1.5, 3.0, 7.0]) if hi > lo else 1.0
            elif opt == "bkspace_huge":
                kw["bkspace"] = 10.0 * (hi - lo + 1.0)
            elif opt == "nbkpts":
                kw["nbkpts"] = rng.randint(2, 8)
            elif opt == "nbkpts_1":
                kw["nbkpts"] = rng.choice([0, 1])
            elif opt == "everyn":
                kw["everyn"] = rng.randint(1, max(1, nx // 2))
            else:
                kw["everyn"] = nx + rng.randint(0, 3)
            yield dict(x=x, nord=nord, opt=opt, kw=kw, inp=dict(rep=rep, option=opt, nx=int(nx), nord=nord, sampling=kind))

    def _check(self, c):
        import warnings
        from pydl.pydlutils.bspline import bspline
        bad = []
        x, nord = c["x"], c["nord"]
        with warnings.catch_warnings():
            warnings.simplefilter("ignore")
            kw = {k: (v.copy() if hasattr(v, "copy") else v) for k, v in c["kw"].items()}
            s = bspline(x, nord=nord, **kw)
        t = np.asarray(s.breakpoints, dtype=float)
        if np.any(np.diff(t) < 0):
            bad.append(("non_decreasing", "knots %s" % t))
        eps = 1e-5 * max(1.0, abs(x.min()), abs(x.max()))
        if len(t) < 2 * nord or t[nord - 1] > x.min() + eps or t[len(t) - nord] < x.max() - eps:
            bad.append(("covers_data_range", "inner knots [%s, %s] vs data [%s, %s]" % (t[nord - 1] if len(t) >= nord else None,
                                                                                         t[len(t) - nord] if len(t) >= nord else None, x.min(), x.max())))
        nshort = len(t) - 2 * (nord - 1)
        if nshort < 1:
            bad.append(("nord_minus_one_extra_knots_each_side", "only %d knots for order %d" % (len(t), nord)))
        else:
            inner = t[nord - 1:nord - 1 + nshort]
            step = (inner[1] - inner[0]) if nshort > 1 else 1.0
            left = [inner[0] - step * i for i in range(nord - 1, 0, -1)]
            right = [inner[-1] + step * i for i in range(1, nord)]
            if not np.allclose(t[:nord - 1], left, rtol=1e-5, atol=1e-6) or not np.allclose(t[len(t) - nord + 1:], right, rtol=1e-5, atol=1e-6):
                bad.append(("nord_minus_one_extra_knots_each_side", "padding %s | %s" % (t[:nord - 1], t[len(t) - nord + 1:])))
        if s.nord != nord or s.mask.shape != t.shape or not s.mask.all() or np.shape(s.coeff) != (len(t) - nord,) or np.any(np.asarray(s.coeff) != 0):
            bad.append(("attributes_consistent", "nord %s mask %s coeff %s" % (s.nord, s.mask.shape, np.shape(s.coeff))))
        return bad

    def run_job(self, tier, seed, exclusions):
        import random
        import time
        import traceback
        t0 = time.time()
        res = JobResult(job=self.name, target=self.target, level="B", prop="C08", obligations=[], failures=[], crashed=None,
                        bound="generated abscissae (2..50 points, uniform / clustered / unsorted), orders 1..6, every breakpoint option incl. edge cases "
                              "(one or no placed value in range, spacing larger than the range, fewer than two breakpoints, everyn not dividing or exceeding the sample)",
                        paths=0, solver_s=0.0, queries=0, native_runs=0, native_failures=[], vacuity=None,
                        assumptions=["numerical check to single-precision tolerance on generated inputs only (knot placement is float32 arithmetic: undecided by proof)"])
        fails = {}
        n = 0
        try:
            rng = random.Random(seed * 11 + 1)
            for c in self._cases(rng, 300 if tier == "quick" else 3000):
                n += 1
                try:
                    for kind, msg in self._check(c):
                        fails.setdefault(kind, []).append((msg, c["inp"]))
                except Exception as e:
                    fails.setdefault("no_unexpected_exception", []).append(("%s: %s" % (type(e).__name__, str(e)[:150]), c["inp"]))
            res["paths"] = res["native_runs"] = n
            for kd in self.KINDS:
                b = fails.get(kd, [])
                d = dict(name="knot_construction:" + kd, path=0, status="unsat" if not b else "sat", secs=0.0, backend="native-numeric", size=0,
                         note="" if not b else b[0][0])
                if b:
                    d.update(inputs=dict(clause=kd, seed=seed, **b[0][1]), model=str(b[:3])[:1200], reason="")
                res["obligations"].append(d)
            res["vacuity"] = dict(cases=n)
        except Exception:
            res["crashed"] = traceback.format_exc()
        res["wall_s"] = time.time() - t0
        return res

    def native_replay(self, inputs):
        import random
        rng = random.Random(int(inputs.get("seed", 0)) * 11 + 1)
        for c in self._cases(rng, int(inputs["rep"]) + 1):
            last = c
        try:
            bad = self._check(last)
        except Exception as e:
            bad = [("no_unexpected_exception", "%s: %s" % (type(e).__name__, e))]
        return (not bad, "bspline(x[%d], nord=%d, %s): %s" % (last["x"].size, last["nord"], {k: (v.tolist() if hasattr(v, "tolist") else v) for k, v in last["kw"].items()}, bad[:2]))
