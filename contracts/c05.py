"""C05 -- spheregroup partitions points into friends-of-friends components."""
import itertools
import types
import numpy as np
import z3
from pyvc.harness import FunctionContract, register, JobResult
from pyvc.proxies import SBool, SInt, sym_bool, sym_int
from pyvc.engine import eng
from pyvc import arrays as A
from pyvc import spec as S

EVIDENCE_LEVEL = "other"
EXPLANATION = ("Per-chunk friends-of-friends, cross-chunk merge and spheregroup's renumbering/list rebuild are decided on the real code "
               "for every adjacency graph / chunk cover / labelling up to the stated bounds (forking driver over a symbolic separation predicate).")
UNDECIDED = ["chunk geometry => edge-cover precondition (every linked pair shares a chunk list; seam, poles, margins): only compared with brute-force "
             "connected components on generated point sets (spheregroup_vs_brute_force, bounded), no symbolic contract",
             "all sizes: the list/renumbering loops are decided only up to the stated bounds in this version"]


def components(n, adj):
    lab = list(range(n))
    changed = True
    while changed:
        changed = False
        for i in range(n):
            for j in range(n):
                if adj[i][j] and lab[i] != lab[j]:
                    m = min(lab[i], lab[j])
                    lab[i] = lab[j] = m
                    changed = True
    return lab


def check_partition_arrays(n, ingroup, mult, first, nxt, comp_of, ordered=True, trailing=True):
    """the four arrays describe one partition equal to `comp_of` (component label per point); returns list of problems"""
    bad = []
    ingroup = [int(v) for v in ingroup]
    # same group <=> same component
    for a in range(n):
        for b in range(n):
            if (ingroup[a] == ingroup[b]) != (comp_of[a] == comp_of[b]):
                bad.append("points %d,%d: same group %s but same component %s" % (a, b, ingroup[a] == ingroup[b], comp_of[a] == comp_of[b]))
    ng = len(set(ingroup))
    if sorted(set(ingroup)) != list(range(ng)):
        bad.append("group numbers are not 0..%d: %s" % (ng - 1, sorted(set(ingroup))))
    if ordered:
        firsts = [min(j for j in range(n) if ingroup[j] == g) for g in sorted(set(ingroup))]
        if firsts != sorted(firsts):
            bad.append("groups are not numbered in order of their first member: %s" % ingroup)
    for g in range(len(mult)):
        members = [j for j in range(n) if ingroup[j] == g]
        if g < ng:
            if int(mult[g]) != len(members):
                bad.append("multiplicity[%d]=%d but group has %d members" % (g, mult[g], len(members)))
            if int(first[g]) != (members[0] if members else -1):
                bad.append("first[%d]=%d, lowest member %s" % (g, first[g], members[:1]))
            chain, j, steps = [], int(first[g]), 0
            while j != -1 and steps <= n:
                chain.append(j)
                j = int(nxt[j])
                steps += 1
            if chain != members:
                bad.append("next-chain of group %d is %s, members %s" % (g, chain, members))
        elif trailing:
            if int(mult[g]) != 0 or int(first[g]) != -1:
                bad.append("entries beyond the last group: mult[%d]=%d first[%d]=%d" % (g, mult[g], g, first[g]))
    return bad


class _Sep:
    """separation of points i and j compared with the linking length: `le` = (sep <= distance) is the symbolic adjacency,
    `eq` = (sep == distance) a second symbolic bit (eq implies le), so that `<`, `>`, `>=` have a meaning too"""
    def __init__(self, le, key=None):
        self.le = le
        self.key = key

    def _eq(self):
        from pyvc.engine import eng
        e = eng()
        if self.key is not None and self.key[0] == self.key[1]:
            return SBool(False)          # a point is at distance 0 from itself
        k = "sep_eq_all"                 # one bit: every linked pair sits exactly at the linking length (keeps the fork count small)
        if k not in e.ghost:
            e.ghost[k] = sym_bool("eq_all")
        return e.ghost[k] & self.le

    def __le__(self, other):
        return self.le

    def __gt__(self, other):
        return ~self.le

    def __lt__(self, other):
        return self.le & ~self._eq()

    def __ge__(self, other):
        return ~self.le | self._eq()


@register("C05")
class GroupsFoF(FunctionContract):
    """class groups: friends-of-friends == connected components, output arrays consistent (all graphs on <= n nodes)"""
    name = "groups_fof"
    target = "pydl.pydlutils.spheregroup:groups.__init__"
    level = "B"
    bound = "every adjacency graph on 1..5 points (quick) / 1..6 (thorough), arbitrary symmetric separation predicate"
    max_paths = 40000
    budget_s = 200
    job_budget_s = 400
    assumptions = ["the separation function is an arbitrary symmetric, reflexive predicate 'sep(i,j) <= distance' (gcirc contract: symmetric, zero on identical points)"]

    def cases(self, tier):
        return [1, 2, 3, 4, 5] if tier == "quick" else [1, 2, 3, 4, 5, 6]

    def inputs(self):
        n = self.case
        adj = [[None] * n for _ in range(n)]
        for i in range(n):
            for j in range(i, n):
                b = SBool(True) if i == j else sym_bool("a_%d_%d" % (i, j))
                adj[i][j] = adj[j][i] = b
        return dict(n=n, adj=adj)

    def call(self, fn, n, adj):
        coords = np.arange(n).reshape(1, n)
        me = types.SimpleNamespace()
        if isinstance(adj[0][0], SBool):
            sep = lambda x1, x2: _Sep(adj[int(x1[0])][int(x2[0])], tuple(sorted((int(x1[0]), int(x2[0])))))
        else:
            # native: linked pairs sit exactly AT the linking length (the boundary case of "do not exceed")
            sep = lambda x1, x2: (0.0 if int(x1[0]) == int(x2[0]) else 1.0) if adj[int(x1[0])][int(x2[0])] else 2.0
        if fn.__name__ == "__init__" and not hasattr(fn, "__self__") and fn.__qualname__ == "__init__":
            fn(me, coords, 1.0, separation=sep)
            return me
        from pydl.pydlutils.spheregroup import groups
        return groups(coords, 1.0, separation=sep)

    def native_fn(self):
        from pydl.pydlutils.spheregroup import groups
        return groups.__init__

    def ensures(self, result, n, adj):
        g = result
        cadj = [[bool(adj[i][j]) for j in range(n)] for i in range(n)]      # decided on this path
        comp = components(n, cadj)
        # the per-chunk class is internal: its multGroup doubles as scratch space beyond nGroups (spheregroup clears it)
        bad = check_partition_arrays(n, g.inGroup, g.multGroup, g.firstGroup, g.nextGroup, comp, trailing=False)
        if g.nGroups != len(set(comp)):
            bad.append("nGroups=%d, components=%d" % (g.nGroups, len(set(comp))))
        self._why = bad
        return {"components_and_lists": not bad}

    def samples(self, rng):
        for _ in range(100):
            n = rng.randint(1, 8)
            adj = [[False] * n for _ in range(n)]
            for i in range(n):
                for j in range(i, n):
                    adj[i][j] = adj[j][i] = (i == j) or rng.random() < 0.3
            yield dict(n=n, adj=adj)


def _covers(n, nchunks):
    subsets = [s for k in range(1, nchunks + 1) for s in itertools.combinations(range(nchunks), k)]
    for choice in itertools.product(subsets, repeat=n):
        yield tuple(tuple(i for i in range(n) if c in choice[i]) for c in range(nchunks))


@register("C05")
class FoFMerge(FunctionContract):
    """chunks.friendsoffriends: per-chunk groups merged across chunks == global components, given the edge-cover precondition"""
    name = "fof_merge"
    target = "pydl.pydlutils.spheregroup:chunks.friendsoffriends"
    level = "B"
    bound = "3 points x 2..3 chunks and 4 points x 2 chunks (quick; thorough adds 4 points x 3 chunks): every assignment of points to non-empty sets of chunks, every adjacency graph"
    max_paths = 200000
    budget_s = 60
    job_budget_s = 300
    assumptions = ["edge-cover precondition: every linked pair lies together in at least one chunk list and every point in at least one "
                   "(what chunks.assign with margin = linking length is meant to establish; undecided here)",
                   "per-chunk grouping = the real class `groups` on the symbolic predicate"]

    def cases(self, tier):
        combos = [(3, 2), (3, 3), (4, 2)] + ([(4, 3)] if tier == "thorough" else [])
        return [(n, cov) for (n, c) in combos for cov in _covers(n, c)]

    def case_label(self):
        return "[n=%d,chunks=%d]" % (self.case[0], len(self.case[1]))

    def inputs(self):
        n, cover = self.case
        adj = [[None] * n for _ in range(n)]
        for i in range(n):
            for j in range(i, n):
                b = SBool(True) if i == j else sym_bool("a_%d_%d" % (i, j))
                adj[i][j] = adj[j][i] = b
        return dict(n=n, cover=cover, adj=adj)

    def call(self, fn, n, cover, adj):
        from pydl.pydlutils.spheregroup import groups, chunks
        symbolic = isinstance(adj[0][1] if n > 1 else adj[0][0], SBool)

        def cfof(ra, dec, chunkList, linkSep):
            ids = list(chunkList)
            coords = np.array(ids).reshape(1, len(ids))
            if symbolic:
                sep = lambda x1, x2: _Sep(adj[int(x1[0])][int(x2[0])], tuple(sorted((int(x1[0]), int(x2[0])))))
            else:
                sep = lambda x1, x2: (0.0 if int(x1[0]) == int(x2[0]) else 1.0) if adj[int(x1[0])][int(x2[0])] else 2.0
            return groups(coords, 1.0, separation=sep)
        me = types.SimpleNamespace(nDec=1, nRa=[len(cover)], chunkList=[[list(c) for c in cover]], chunkfriendsoffriends=cfof)
        ra = np.zeros(n)
        if getattr(fn, "__qualname__", "") == "friendsoffriends":
            return fn(me, ra, ra, 1.0)
        return chunks.friendsoffriends(me, ra, ra, 1.0)

    def native_fn(self):
        from pydl.pydlutils.spheregroup import chunks
        return chunks.friendsoffriends

    def ensures(self, result, n, cover, adj):
        inGroup, multGroup, firstGroup, nextGroup, nGroups = result
        cadj = [[bool(adj[i][j]) for j in range(n)] for i in range(n)]
        for i in range(n):
            for j in range(i + 1, n):
                if cadj[i][j] and not any(i in c and j in c for c in cover):
                    return {"components_and_lists": True}      # edge-cover precondition does not hold for this graph
        comp = components(n, cadj)
        bad = check_partition_arrays(n, inGroup, multGroup, firstGroup, nextGroup, comp, ordered=False)
        if nGroups != len(set(comp)):
            bad.append("nGroups=%d, components=%d" % (nGroups, len(set(comp))))
        self._why = bad
        return {"components_and_lists": not bad}

    def samples(self, rng):
        for _ in range(150):
            n, c = rng.randint(2, 6), rng.randint(1, 4)
            cover = tuple(tuple(sorted(i for i in range(n) if rng.random() < 0.6)) for _ in range(c))
            if any(not any(i in cc for cc in cover) for i in range(n)):
                continue
            adj = [[False] * n for _ in range(n)]
            for i in range(n):
                for j in range(i, n):
                    adj[i][j] = adj[j][i] = (i == j) or (rng.random() < 0.4 and any(i in cc and j in cc for cc in cover))
            yield dict(n=n, cover=cover, adj=adj)


def _lists_from_labels(lab, n):
    first = np.zeros(n, dtype='i4') - 1
    nxt = np.zeros(n, dtype='i4') - 1
    mult = np.zeros(n, dtype='i4')
    for i in range(n - 1, -1, -1):
        nxt[i] = first[lab[i]]
        first[lab[i]] = i
    for g in range(max(lab) + 1):
        mult[g] = sum(1 for v in lab if v == g)
    return mult, first, nxt


class _ChunksStub:
    """chunks stand-in: friendsoffriends hands spheregroup an arbitrary valid labelling (contract of chunks.friendsoffriends)"""
    labelling = None

    def __init__(self, ra, dec, chunksize):
        pass

    def assign(self, ra, dec, margin):
        pass

    def friendsoffriends(self, ra, dec, linklength):
        lab = list(type(self).labelling)
        n = len(lab)
        mult, first, nxt = _lists_from_labels(lab, n)
        return (np.array(lab, dtype='i4'), mult, first, nxt, max(lab) + 1)


@register("C05")
class SpheregroupRenumber:
    """spheregroup's renumbering / list rebuild / multiplicity / trailing entries, for every labelling handed over by the chunk stage"""
    name = "spheregroup_renumber"
    prop = "C05"
    target = "pydl.pydlutils.spheregroup:spheregroup"
    level = "B"

    def run_job(self, tier, seed, exclusions):
        import time
        import traceback
        from pyvc import amode
        from pyvc.engine import Engine
        t0 = time.time()
        nmax = 5 if tier == "quick" else 6
        res = JobResult(job=self.name, target=self.target, level="B", prop="C05", obligations=[], failures=[], crashed=None,
                        bound="every labelling (surjection onto 0..g-1, any numbering) of 2..%d points handed over by the chunk stage" % nmax,
                        paths=0, solver_s=0.0, queries=0, native_runs=0, native_failures=[], vacuity=None,
                        assumptions=["chunks.friendsoffriends replaced by its contract: a dense labelling with consistent first/next/mult lists",
                                     "bounded: up to %d points" % nmax])
        try:
            Engine.current = Engine("sg")
            stub = type("S", (_ChunksStub,), {})
            L = amode.load(self.target, loops={}, extra_globals={"chunks": stub})
            res["rewritten_source"] = L.rewritten_source
            fails, count = [], 0
            for n in range(2, nmax + 1):
                for lab in itertools.product(range(n), repeat=n):
                    g = max(lab) + 1
                    if set(lab) != set(range(g)):
                        continue
                    count += 1
                    stub.labelling = lab
                    ra = np.zeros(n)
                    try:
                        ing, mult, first, nxt = L.fn(ra, ra, 1.0)
                        bad = check_partition_arrays(n, ing, mult, first, nxt, list(lab), ordered=True, trailing=True)
                    except Exception as e:
                        bad = ["raised %s: %s" % (type(e).__name__, e)]
                    if bad and len(fails) < 5:
                        fails.append((list(lab), bad[:2]))
            res["paths"] = res["native_runs"] = count
            ok = not fails
            d = dict(name="spheregroup_renumber:first_member_order_and_lists", path=0, status="unsat" if ok else "sat", secs=0.0,
                     backend="native-exhaustive", size=0, note="" if ok else "labelling %s: %s" % fails[0])
            if not ok:
                d.update(inputs=dict(labelling=fails[0][0]), model=str(fails[:3]), reason="")
            res["obligations"].append(d)
            res["vacuity"] = dict(labellings=count)
        except Exception:
            res["crashed"] = traceback.format_exc()
        res["wall_s"] = time.time() - t0
        return res

    def native_replay(self, inputs):
        from unittest import mock
        import pydl.pydlutils.spheregroup as m
        lab = inputs["labelling"]
        stub = type("S", (_ChunksStub,), {"labelling": lab})
        n = len(lab)
        with mock.patch.object(m, "chunks", stub):
            try:
                ing, mult, first, nxt = m.spheregroup(np.zeros(n), np.zeros(n), 1.0)
            except Exception as e:
                return (False, "raised %s: %s" % (type(e).__name__, e))
        bad = check_partition_arrays(n, ing, mult, first, nxt, list(lab), ordered=True, trailing=True)
        return (not bad, "labelling %s -> ingroup %s: %s" % (lab, list(ing), bad[:3]))


# ---------------------------------------------------------------------------
# whole-function contract against brute-force connected components (spatial hash included): bounded numerical stand-in
# ---------------------------------------------------------------------------
from pyvc.numeric import NumericJob as _NumericJob
from contracts.c04 import sky_points, true_sep, sep_matrix


@register("C05")
class SpheregroupBruteForce(_NumericJob):
    name = "spheregroup_vs_brute_force"
    target = "pydl.pydlutils.spheregroup:spheregroup, chunks.__init__, chunks.assign, chunks.getbounds, chunks.get, chunks.friendsoffriends, groups.__init__"
    bound = ("5..420 points: mazes (chains along random edges of a 5..7 x 4..6 lattice of nodes 2.7..5 linking lengths apart, shuffled input), clusters, chains of steps just below the linking length running across many chunks (also across the RA 0/360 seam and over a "
             "pole), seam clusters, near-polar scatter, all sky, chunk-aligned lattices, optionally padded with an all-sky lattice; linking lengths 2 arcsec "
             ".. 10 deg; chunk sizes from the default to 30 x the linking length; each case also with the points permuted; separations within 1e-7 deg of "
             "the linking length are not generated")
    KINDS = ("same_group_exactly_when_linked_by_a_chain", "groups_numbered_by_first_member", "multiplicity_first_next_describe_the_same_partition",
             "independent_of_chunk_size_and_point_order")
    NQ, NT = 400, 2500

    def _cases(self, rng, n):
        rep = 0
        while rep < n:
            kind = rng.choice(["cluster", "seam", "pole", "allsky", "lattice", "chain", "chain", "seamchain", "polechain", "maze", "maze", "maze"])
            npts = rng.randint(5, 70)
            if kind == "maze":
                # chains along a random subset of the edges of a lattice of nodes a few linking lengths apart: tree-like groups spanning many
                # chunks, merged late and in many different orders by the chunk-by-chunk pass (input order shuffled)
                link = rng.choice([1.0, 1.0, 0.25])
                cell = link * rng.choice([2.7, 3.3, 4.1, 5.0])
                nxn, nyn = rng.randint(5, 7), rng.randint(4, 6)
                r0, d0 = rng.uniform(30, 300), rng.uniform(-30, 20)
                pts, step = [], 0.8 * link
                def chain_(a, b):
                    m = max(1, int(np.ceil(np.hypot(b[0] - a[0], b[1] - a[1]) / step)))
                    for t in range(m + 1):
                        pts.append((a[0] + (b[0] - a[0]) * t / m + rng.uniform(-0.05, 0.05) * link, a[1] + (b[1] - a[1]) * t / m + rng.uniform(-0.05, 0.05) * link))
                for i in range(nxn):
                    for jn in range(nyn):
                        if i + 1 < nxn and rng.random() < 0.45:
                            chain_((i * cell, jn * cell), ((i + 1) * cell, jn * cell))
                        if jn + 1 < nyn and rng.random() < 0.45:
                            chain_((i * cell, jn * cell), (i * cell, (jn + 1) * cell))
                if len(pts) < 5 or len(pts) > 420:
                    continue
                rng.shuffle(pts)
                ra = np.array([(r0 + q[0] / np.cos(np.radians(d0 + q[1]))) % 360.0 for q in pts])
                dec = np.array([d0 + q[1] for q in pts])
            elif kind == "allsky":
                link = rng.choice([2.0, 5.0, 10.0])
                ra, dec = sky_points(rng, npts, kind)
            elif "chain" in kind:
                link = rng.choice([2 / 3600.0, 0.01, 0.05, 0.3])
                r0, d0 = rng.uniform(0, 360), rng.uniform(-60, 60)
                if kind == "seamchain":
                    r0 = (360.0 - rng.uniform(0, 5) * link) % 360.0
                if kind == "polechain":
                    d0 = rng.choice([-1, 1]) * min(89.9999, 90.0 - rng.uniform(0.5, 6) * link)
                th = rng.uniform(0, 2 * np.pi)
                ra, dec = [r0], [d0]
                for _ in range(npts - 1):
                    step = link * (rng.uniform(0.5, 0.98) if rng.random() < 0.85 else rng.uniform(1.05, 3.0))
                    th += rng.gauss(0, 0.3)
                    d = dec[-1] + step * np.sin(th)
                    r = ra[-1] + step * np.cos(th) / max(1e-3, np.cos(np.radians(dec[-1])))
                    if abs(d) > 89.9999:            # |Dec| < 90 is a precondition: turn back instead of stepping over the pole
                        th = -th
                        d = dec[-1] + step * np.sin(th)
                    if abs(d) > 89.9999:
                        d = np.sign(d) * 89.9999
                    ra.append(r % 360.0)
                    dec.append(d)
                ra, dec = np.array(ra), np.array(dec)
            else:
                link = rng.choice([2 / 3600.0, 0.01, 0.05, 0.2, 0.5])
                ra, dec = sky_points(rng, npts, kind)
                if kind != "lattice":
                    # shrink the cloud so that linked pairs exist
                    sc = link * rng.uniform(1.0, 6.0) / 0.4
                    if kind in ("cluster", "seam"):
                        dra = ((ra - ra[0] + 180.0) % 360.0) - 180.0
                        ra, dec = (ra[0] + dra * sc) % 360.0, np.clip(dec[0] + (dec - dec[0]) * sc, -89.9, 89.9)
            if rng.random() < 0.3:
                gra, gdec = np.meshgrid(np.arange(0.0, 360.0, 30.0), np.arange(-60.0, 61.0, 30.0))
                ra, dec = np.concatenate([ra, gra.ravel()]), np.concatenate([dec, gdec.ravel()])
            npt = ra.size
            sep = sep_matrix(ra, dec, ra, dec)
            sep[np.arange(npt), np.arange(npt)] = 0.0
            off = ~np.eye(npt, dtype=bool)
            if (np.abs(sep[off] - link) < 1e-7).any():
                continue
            chunksize = rng.choice([None, None, link * rng.uniform(1.0, 30.0)]) if kind != "maze" else rng.choice([4.0 * link, 4.0 * link, None])
            eff = max(4 * link, 0.1) if chunksize is None else max(chunksize, 4 * link)
            span_d = dec.max() - dec.min()
            dra = np.sort(ra)
            gaps = np.diff(np.concatenate([dra, [dra[0] + 360.0]]))
            span_r = 360.0 - gaps.max()
            if np.abs(dec).max() > 90 - 3 * eff:
                span_r = 360.0
            while (span_d / eff + 3) * (span_r * max(0.05, np.cos(np.radians(np.abs(dec).min()))) / eff + 3) > 2e5:
                eff *= 1.5
                chunksize = eff
            yield dict(ra=ra, dec=dec, link=link, chunksize=chunksize, sep=sep, perm=rng.sample(range(npt), npt),
                       inp=dict(rep=rep, sky=kind, npoints=int(npt), linklength=link, chunksize=chunksize))
            rep += 1

    @staticmethod
    def _components(sep, link):
        n = sep.shape[0]
        parent = list(range(n))

        def find(i):
            while parent[i] != i:
                parent[i] = parent[parent[i]]
                i = parent[i]
            return i
        for i in range(n):
            for k in range(i + 1, n):
                if sep[i, k] <= link:
                    parent[find(i)] = find(k)
        roots, label = {}, []
        for i in range(n):
            label.append(roots.setdefault(find(i), len(roots)))
        return label

    def _check(self, c):
        import warnings
        from pydl.pydlutils.spheregroup import spheregroup
        ra, dec, link, sep = c["ra"], c["dec"], c["link"], c["sep"]
        n = ra.size
        kw = {} if c["chunksize"] is None else dict(chunksize=c["chunksize"])
        with warnings.catch_warnings():
            warnings.simplefilter("ignore")
            ing, mult, first, nxt = (np.asarray(a) for a in spheregroup(ra.copy(), dec.copy(), link, **kw))
        bad = []
        exp = self._components(sep, link)          # numbered by first member already
        if ing.shape != (n,) or mult.shape != (n,) or first.shape != (n,) or nxt.shape != (n,):
            return [("multiplicity_first_next_describe_the_same_partition", "shapes %s %s %s %s" % (ing.shape, mult.shape, first.shape, nxt.shape))]
        same_got = ing[:, None] == ing[None, :]
        same_exp = np.array(exp)[:, None] == np.array(exp)[None, :]
        if not np.array_equal(same_got, same_exp):
            i, k = [int(v) for v in np.argwhere(same_got != same_exp)[0]]
            bad.append(("same_group_exactly_when_linked_by_a_chain", "points %d (%.6f, %.6f) and %d (%.6f, %.6f): grouped together %s, linked by a chain %s" %
                        (i, ra[i], dec[i], k, ra[k], dec[k], bool(same_got[i, k]), bool(same_exp[i, k]))))
        elif list(ing) != exp:
            bad.append(("groups_numbered_by_first_member", "group numbers %s..., expected %s..." % (list(ing)[:12], exp[:12])))
        ng = int(ing.max()) + 1
        ok = (mult[ng:] == 0).all() and (first[ng:] == -1).all()
        for g in range(ng):
            members = [i for i in range(n) if ing[i] == g]
            walk, j, guard = [], int(first[g]), 0
            while j != -1 and guard <= n:
                walk.append(j)
                j = int(nxt[j])
                guard += 1
            ok = ok and int(mult[g]) == len(members) and int(first[g]) == min(members) and sorted(walk) == members and len(walk) == len(members)
        if not ok:
            bad.append(("multiplicity_first_next_describe_the_same_partition", "multiplicity / first / next do not describe the partition given by the group numbers"))
        p = c["perm"]
        with warnings.catch_warnings():
            warnings.simplefilter("ignore")
            ing2 = np.asarray(spheregroup(ra[p].copy(), dec[p].copy(), link, chunksize=max(4 * link, 0.1) * 2.3)[0])
        back = np.empty(n, dtype=int)
        back[p] = ing2
        if not np.array_equal(back[:, None] == back[None, :], same_exp):
            bad.append(("independent_of_chunk_size_and_point_order", "permuted input with chunksize %g gives a different partition" % (max(4 * link, 0.1) * 2.3)))
        return bad
