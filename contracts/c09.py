"""C09 -- B-spline fit is the weighted least-squares optimum; failure is a status code."""
import itertools
import types
import warnings
import numpy as np
import z3
from pyvc.harness import FunctionContract, register, JobResult
from pyvc.proxies import SInt, SReal, SBool, sym_real
from pyvc.engine import eng
from pyvc import spec as S

EVIDENCE_LEVEL = "other"
EXPLANATION = ("Bounded stand-in: the real bspline.fit (with the real action/intrv/bsplvn/uniq/value chain) executed on symbolic data and "
               "weights for concrete abscissae and knots, the banded Cholesky pair replaced by its contract: the banded normal matrix and "
               "right-hand side it assembles are A^T W A and A^T W y, and the stored coefficients satisfy the dense weighted normal equations. "
               "cholesky_band / cholesky_solve against their contracts on generated SPD / indefinite / non-finite banded matrices (numerical, bounded).")
UNDECIDED = ["L L^T = A inside scipy.linalg.cholesky_banded / cho_solve_banded (trusted, checked numerically on generated matrices only)",
             "agreement with an independent dense solver and polynomial reproduction in floating point (conditioning)",
             "all sizes: the band-assembly index arithmetic (bi/bo) is decided for the enumerated orders and sizes only"]


class _Dummy:
    pass


@register("C09")
class FitNormalEquations(FunctionContract):
    name = "fit_normal_equations"
    target = "pydl.pydlutils.bspline:bspline.fit"
    level = "B"
    nmode = True
    bound = "orders 1..3 (4 in thorough), 2..3 interior intervals, 6..9 concrete abscissae; data y and weights symbolic reals (weights > 0 where stated)"
    nl_mode = "nra"
    max_paths = 2000
    assumptions = ["A1 floats as reals", "cholesky_band / cholesky_solve replaced by their contract: status -1 and x with (A^T W A) x = A^T W y (T-cholesky)",
                   "abscissae and knots concrete: the basis values are concrete floats, y and weights symbolic"]

    def cases(self, tier):
        out = []
        for nord in ((1, 2, 3) if tier == "quick" else (1, 2, 3, 4)):
            for nint in (2, 3):
                out.append((nord, nint))
        return out

    def inputs(self):
        nord, nint = self.case
        npts = 2 * nint + nord + 1
        x = np.linspace(0.05, nint - 0.05, npts)
        y = np.empty((npts,), dtype=object)
        w = np.empty((npts,), dtype=object)
        for i in range(npts):
            y[i] = sym_real("y%d" % i)
            w[i] = sym_real("w%d" % i)
        return dict(x=x, y=y, w=w, nord=nord, nint=nint)

    def requires(self, x, y, w, nord, nint):
        return S.AND(*[wi > 0 for wi in w])

    def _sset(self, x, nord, nint, symbolic):
        from pydl.pydlutils.bspline import bspline
        with warnings.catch_warnings():
            warnings.simplefilter("ignore")
            s = bspline(np.asarray(x, dtype=float), nord=nord, bkpt=np.arange(nint + 1, dtype=float))
        if symbolic:
            s.coeff = np.zeros(s.coeff.shape, dtype=object)
            s.icoeff = np.zeros(s.icoeff.shape, dtype=object)
        return s

    def call(self, fn, x, y, w, nord, nint):
        symbolic = S.is_sym(*y)
        sset = self._sset(x, nord, nint, symbolic)
        self._sset_obj = sset
        if symbolic:
            g = fn.__globals__
            calls = {}

            def cholesky_band(l, mininf=0.0):
                calls["alpha"] = l.copy()
                return (-1, l)

            def cholesky_solve(a, bb):
                e = eng()
                e.assumptions_used.add("T-cholesky: cholesky_solve(cholesky_band(A), b) returns x with A x = b (lower-band storage)")
                bw = a.shape[0]
                n = bb.shape[0] - bw
                xs = np.zeros(bb.shape, dtype=object)
                for j in range(n):
                    xs[j] = sym_real("sol%d" % j)
                for i in range(n):
                    acc = 0
                    for j in range(n):
                        d = abs(i - j)
                        if d < bw:
                            acc = acc + a[d, min(i, j)] * xs[j]
                    e.assume((acc == bb[i]).z)
                calls["beta"] = bb.copy()
                return xs
            g["cholesky_band"], g["cholesky_solve"] = cholesky_band, cholesky_solve
            self._calls = calls
            xo = np.empty(x.shape, dtype=object)
            for i in range(len(x)):
                xo[i] = float(x[i])
            return fn(sset, xo, y, w)
        return sset.fit(np.asarray(x, dtype=float), np.asarray(y, dtype=float), np.asarray(w, dtype=float))

    def native_fn(self):
        from pydl.pydlutils.bspline import bspline
        return bspline.fit

    def ensures(self, result, x, y, w, nord, nint):
        status, yfit = result
        sset = self._sset_obj
        ref = self._sset(x, nord, nint, False)
        a1, lower, upper = ref.action(np.asarray(x, dtype=float))
        indx = ref.intrv(np.asarray(x, dtype=float))
        nc = len(ref.coeff)
        D = np.zeros((len(x), nc))
        for i in range(len(x)):
            for c in range(nord):
                D[i, indx[i] - nord + 1 + c] = a1[i, c]
        coeff = sset.coeff
        sym = S.is_sym(*y)
        out = {"status_zero": bool(status == 0) if not isinstance(status, SInt) else status == 0}
        cl = []
        for j in range(nc):
            acc = 0
            for i in range(len(x)):
                if D[i, j] == 0.0:
                    continue
                model = 0
                for k in range(nc):
                    if D[i, k] != 0.0:
                        model = model + coeff[k] * float(D[i, k])
                acc = acc + w[i] * float(D[i, j]) * (y[i] - model)
            cl.append(S.eq(acc, 0) if sym else abs(float(acc)) < 1e-6 * (1 + sum(abs(float(v)) for v in y) * max(float(v) for v in w)))
        out["coefficients_satisfy_the_weighted_normal_equations"] = S.AND(*cl)
        cl = []
        for i in range(len(x)):
            model = 0
            for k in range(nc):
                if D[i, k] != 0.0:
                    model = model + coeff[k] * float(D[i, k])
            cl.append(S.eq(yfit[i], model) if sym else abs(float(yfit[i]) - float(model)) < 1e-5 * (1 + abs(float(model))))
        out["yfit_is_the_spline_at_the_data"] = S.AND(*cl)
        return out

    def samples(self, rng):
        for _ in range(60):
            nord, nint = rng.randint(1, 4), rng.randint(2, 4)
            npts = 3 * nint + nord + 2
            x = np.sort(np.array([rng.uniform(0.01, nint - 0.01) for _ in range(npts)]))
            # every interval supported
            x[:nint] = np.arange(nint) + 0.5
            x = np.sort(x)
            yield dict(x=x, y=np.array([rng.uniform(-2, 2) for _ in range(npts)]), w=np.array([rng.uniform(0.5, 2) for _ in range(npts)]), nord=nord, nint=nint)


@register("C09")
class CholeskyBandContract:
    """cholesky_band / cholesky_solve against their contract on generated banded matrices (numerical cross-check, bounded)"""
    name = "cholesky_band_contract"
    prop = "C09"
    target = "pydl.pydlutils.bspline:cholesky_band, cholesky_solve"
    level = "B"

    def run_job(self, tier, seed, exclusions):
        import random
        import time
        import traceback
        from pydl.pydlutils.bspline import cholesky_band, cholesky_solve
        t0 = time.time()
        res = JobResult(job=self.name, target=self.target, level="B", prop="C09", obligations=[], failures=[], crashed=None,
                        bound="generated symmetric banded matrices, bandwidth 1..6, size 3..12: SPD, non-positive diagonal, non-finite entry, positive diagonal but indefinite",
                        paths=0, solver_s=0.0, queries=0, native_runs=0, native_failures=[], vacuity=None,
                        assumptions=["numerical check with tolerance 1e-8 relative on generated matrices only"])
        active = {e["obligation"].split(":", 1)[1] for e in exclusions}
        fails = {}
        count = 0

        def note(kind, msg, inp):
            fails.setdefault(kind, []).append((msg, inp))
        try:
            rng = random.Random(seed * 17 + 3)
            nrep = 40 if tier == "quick" else 400
            with warnings.catch_warnings():
                warnings.simplefilter("ignore")
                for rep in range(nrep):
                    bw = rng.randint(1, 6)
                    n = rng.randint(max(3, bw), 12)
                    Lt = np.zeros((n, n))
                    for i in range(n):
                        for j in range(max(0, i - bw + 1), i + 1):
                            Lt[i, j] = rng.uniform(-1, 1) if i != j else rng.uniform(0.5, 2)
                    Adense = Lt @ Lt.T
                    band = np.zeros((bw, n + bw))
                    for d in range(bw):
                        for j in range(n - d):
                            band[d, j] = Adense[j + d, j]
                    count += 1
                    st, L = cholesky_band(band.copy())
                    if not (isinstance(st, (int, np.integer)) and st == -1):
                        note("spd:factor_and_solve", "SPD matrix flagged %r" % (st,), dict(bw=bw, n=n, seed=seed, rep=rep))
                    else:
                        Ld = np.zeros((n, n))
                        for d in range(bw):
                            for j in range(n - d):
                                Ld[j + d, j] = L[d, j]
                        if not np.allclose(Ld @ Ld.T, Adense, rtol=1e-8, atol=1e-10):
                            note("spd:factor_and_solve", "L L^T != A", dict(bw=bw, n=n, seed=seed, rep=rep))
                        b = np.zeros(n + bw)
                        b[:n] = [rng.uniform(-1, 1) for _ in range(n)]
                        xs = cholesky_solve(L, b)
                        if not np.allclose(Adense @ xs[:n], b[:n], rtol=1e-7, atol=1e-9) or np.any(xs[n:] != 0):
                            note("spd:factor_and_solve", "A x != b", dict(bw=bw, n=n, seed=seed, rep=rep))
                    # non-positive diagonal
                    bad = band.copy()
                    k = rng.randint(0, n - 1)
                    bad[0, k] = -abs(bad[0, k])
                    count += 1
                    try:
                        st, M = cholesky_band(bad.copy())
                        if not (isinstance(st, np.ndarray) and k in st.tolist() and np.array_equal(M, bad)):
                            note("flag:nonpositive_diagonal", "status %r for negative diagonal entry %d" % (st, k), dict(bw=bw, n=n, k=k))
                    except Exception as e:
                        note("flag:nonpositive_diagonal", "raised %s: %s" % (type(e).__name__, e), dict(bw=bw, n=n, k=k))
                    # non-finite entry
                    bad = band.copy()
                    bad[rng.randint(0, bw - 1), rng.randint(0, n - 1)] = np.nan
                    count += 1
                    try:
                        st, M = cholesky_band(bad.copy())
                        if isinstance(st, (int, np.integer)) and st == -1:
                            note("flag:non_finite", "NaN entry not flagged", dict(bw=bw, n=n))
                    except Exception as e:
                        note("flag:non_finite", "raised %s: %s" % (type(e).__name__, e), dict(bw=bw, n=n))
                    # singular: M M^T with an exactly-zero pivot (in the last column for odd rep)
                    if bw >= 2:
                        Mi = np.zeros((n, n))
                        for i in range(n):
                            for j in range(max(0, i - bw + 1), i + 1):
                                Mi[i, j] = float(rng.randint(1, 3))
                        zp = n - 1 if rep % 2 else rng.randint(1, n - 1)
                        Mi[zp, zp] = 0.0
                        As = Mi @ Mi.T
                        sing = np.zeros((bw, n + bw))
                        for d in range(bw):
                            for j in range(n - d):
                                sing[d, j] = As[j + d, j]
                        count += 1
                        try:
                            st, M = cholesky_band(sing.copy())
                            if isinstance(st, (int, np.integer)) and st == -1:
                                Ld = np.zeros((n, n))
                                for d in range(bw):
                                    for j in range(n - d):
                                        Ld[j + d, j] = M[d, j]
                                if not np.all(np.isfinite(M)) or not np.allclose(Ld @ Ld.T, As, rtol=1e-6, atol=1e-8):
                                    note("flag:singular_not_reported_as_success", "singular matrix (zero pivot in column %d) accepted with a non-finite or wrong factor" % zp, dict(bw=int(bw), n=int(n), zero_pivot=int(zp)))
                        except Exception as e:
                            note("flag:singular_not_reported_as_success", "raised %s: %s" % (type(e).__name__, e), dict(bw=int(bw), n=int(n), zero_pivot=int(zp)))
                    # positive diagonal but not positive definite
                    if bw >= 2 and "flag:indefinite_reported_by_status" not in active:
                        ind = band.copy()
                        ind[1, 0] = 10.0 * max(ind[0, 0], ind[0, 1])
                        count += 1
                        try:
                            st, M = cholesky_band(ind.copy())
                            if isinstance(st, (int, np.integer)) and st == -1:
                                note("flag:indefinite_reported_by_status", "indefinite matrix accepted", dict(bw=bw, n=n))
                        except Exception as e:
                            note("flag:indefinite_reported_by_status", "raised %s: %s" % (type(e).__name__, e), dict(bw=int(bw), n=int(n), seed=seed, rep=rep))
            res["paths"] = res["native_runs"] = count
            for kd in ("spd:factor_and_solve", "flag:nonpositive_diagonal", "flag:non_finite", "flag:indefinite_reported_by_status", "flag:singular_not_reported_as_success"):
                b = fails.get(kd, [])
                d = dict(name="cholesky_band_contract:" + kd, path=0, status="unsat" if not b else "sat", secs=0.0, backend="native-numeric", size=0,
                         note="" if not b else b[0][0])
                if b:
                    d.update(inputs=dict(clause=kd, **b[0][1]), model=str(b[:2])[:1000], reason="")
                res["obligations"].append(d)
            res["vacuity"] = dict(matrices=count)
        except Exception:
            res["crashed"] = traceback.format_exc()
        res["wall_s"] = time.time() - t0
        return res

    def native_replay(self, inputs):
        from pydl.pydlutils.bspline import cholesky_band
        if inputs.get("clause") == "flag:indefinite_reported_by_status":
            band = np.zeros((2, 6))
            band[0, :4] = [1.0, 1.0, 1.0, 1.0]
            band[1, :3] = [10.0, 0.1, 0.1]
            with warnings.catch_warnings():
                warnings.simplefilter("ignore")
                try:
                    st, M = cholesky_band(band)
                except Exception as e:
                    return (False, "cholesky_band on a positive-diagonal indefinite matrix raised %s: %s" % (type(e).__name__, e))
            return (not (isinstance(st, (int, np.integer)) and st == -1), "status %r" % (st,))
        return (False, "re-run ./check C09")


@register("C09")
class FitFailureStatus:
    """ill-posed fits are reported through the status code, never by an unrelated exception (bounded scenarios)"""
    name = "fit_failure_status"
    prop = "C09"
    target = "pydl.pydlutils.bspline:bspline.fit, bspline.maskpoints"
    level = "B"
    SCEN = ["too_few_breakpoints", "data_gap_wider_than_spacing", "empty_segment_zero_weights", "few_good_points", "second_gap_after_masking"]

    def _run(self, scen):
        from pydl.pydlutils.bspline import bspline
        with warnings.catch_warnings():
            warnings.simplefilter("ignore")
            if scen == "too_few_breakpoints":
                x = np.linspace(0, 1, 10)
                s = bspline(x, nord=4, nbkpts=2)
                s.mask[:] = False
                s.mask[:3] = True
                return s.fit(x, np.ones(10), np.ones(10))
            if scen == "data_gap_wider_than_spacing":
                x = np.concatenate([np.linspace(0, 1, 20), np.linspace(6, 7, 20)])
                s = bspline(x, nord=4, bkspace=0.5)
                return s.fit(x, np.sin(x), np.ones(x.size))
            if scen == "empty_segment_zero_weights":
                x = np.linspace(0, 10, 60)
                w = np.ones(60)
                w[(x > 3) & (x < 6)] = 0.0
                s = bspline(x, nord=3, bkspace=1.0)
                return s.fit(x, np.cos(x), w)
            if scen == "second_gap_after_masking":
                # multi-step: the object already has masked breakpoints from a first gap, then data with a second gap further right
                xa = np.concatenate([np.linspace(0, 4, 60), np.linspace(7, 20, 200)])
                s = bspline(np.linspace(0, 20, 300), nord=4, bkspace=0.5)
                st1, _ = s.fit(xa, np.sin(xa), np.ones(xa.size))
                st2, _ = s.fit(xa, np.sin(xa), np.ones(xa.size))
                masked1 = np.nonzero(~s.mask)[0]
                xb = np.concatenate([np.linspace(0, 4, 60), np.linspace(7, 11, 60), np.linspace(14, 20, 90)])
                st3, _ = s.fit(xb, np.sin(xb), np.ones(xb.size))
                st4, yfit = s.fit(xb, np.sin(xb), np.ones(xb.size))
                newly = np.setdiff1d(np.nonzero(~s.mask)[0], masked1)
                bk = s.breakpoints[newly]
                ok_region = newly.size > 0 and np.all((bk > 10.0) & (bk < 15.0))
                if (st1, st2, st3, st4) != (-1, 0, -1, 0) or not ok_region:
                    raise AssertionError("statuses %s, newly masked breakpoints at %s (second gap is 11..14)" % ((st1, st2, st3, st4), np.round(bk, 2)))
                return st4, yfit
            if scen == "few_good_points":
                x = np.sort(np.random.RandomState(1).uniform(0, 10, 31))
                w = np.zeros(31)
                w[:3] = 100.0
                s = bspline(x[:3], nord=3, bkspace=2.0)
                return s.fit(x, np.sin(x), w)

    def run_job(self, tier, seed, exclusions):
        import time
        import traceback
        t0 = time.time()
        res = JobResult(job=self.name, target=self.target, level="B", prop="C09", obligations=[], failures=[], crashed=None,
                        bound="four ill-posed scenarios: " + ", ".join(self.SCEN), paths=0, solver_s=0.0, queries=0, native_runs=0,
                        native_failures=[], vacuity=None, assumptions=["concrete scenarios only"])
        active = {e["obligation"].split(":", 1)[1] for e in exclusions}
        for scen in self.SCEN:
            res["native_runs"] += 1
            ok, msg = True, ""
            if scen in active:
                res["obligations"].append(dict(name="fit_failure_status:" + scen, path=0, status="unsat", secs=0.0, backend="native", size=0, note="known finding (excluded)"))
                continue
            try:
                st, yfit = self._run(scen)
                if not isinstance(st, (int, np.integer)) or not np.all(np.isfinite(yfit)):
                    ok, msg = False, "status %r, finite yfit %s" % (st, bool(np.all(np.isfinite(yfit))))
            except Exception as e:
                ok, msg = False, "raised %s: %s" % (type(e).__name__, str(e)[:150])
            d = dict(name="fit_failure_status:" + scen, path=0, status="unsat" if ok else "sat", secs=0.0, backend="native", size=0, note=msg)
            if not ok:
                d.update(inputs=dict(scenario=scen), model=msg, reason="")
            res["obligations"].append(d)
        res["paths"] = len(self.SCEN)
        res["wall_s"] = time.time() - t0
        return res

    def native_replay(self, inputs):
        try:
            st, yfit = self._run(inputs["scenario"])
            ok = isinstance(st, (int, np.integer)) and bool(np.all(np.isfinite(yfit)))
            return (ok, "scenario %s: status %r" % (inputs["scenario"], st))
        except Exception as e:
            return (False, "scenario %s raised %s: %s" % (inputs["scenario"], type(e).__name__, str(e)[:200]))


# ---------------------------------------------------------------------------
# generated ill-posed fits: the retry protocol (status -1 = breakpoints masked, fit again) always settles, never raises
# ---------------------------------------------------------------------------
from pyvc.numeric import NumericJob as _NumericJob


def _dense_reference(t, nord, x, y, w):
    """weighted least squares on the knot vector t with scipy's B-spline basis; (points inside the base interval, fitted values) or None if ill-conditioned"""
    from scipy.interpolate import BSpline
    k = nord - 1
    if t.size < 2 * nord:
        return None
    inside = (x >= t[k]) & (x <= t[-k - 1])
    if inside.sum() == 0:
        return None
    try:
        D = BSpline.design_matrix(x[inside], t, k).toarray()
    except Exception:
        return None
    sw = np.sqrt(w[inside])
    A_ = D * sw[:, None]
    used = np.abs(A_).sum(axis=0) > 0
    if used.sum() == 0 or np.linalg.cond(A_[:, used]) > 1e5:
        return None
    cf = np.zeros(D.shape[1])
    cf[used] = np.linalg.lstsq(A_[:, used], y[inside] * sw, rcond=None)[0]
    yref = np.full(x.shape, np.nan)
    yref[inside] = D @ cf
    return inside, yref


@register("C09")
class FitRetryProtocol(_NumericJob):
    name = "fit_retry_protocol"
    prop = "C09"
    target = "pydl.pydlutils.bspline:bspline.fit, bspline.maskpoints, bspline.action, iterfit"
    bound = ("orders 2..5, 2..7 breakpoints (incl. the minimal single-segment spline), 5..40 points, weight patterns all zero / one edge only / a few good / "
             "random zeros / one interval empty; fit repeated while it answers -1 (at most 60 times); the same data through iterfit")
    KINDS = ("every_attempt_returns_an_integer_status", "retries_settle_on_success_or_failure", "success_means_finite_fit_and_solved_normal_equations",
             "iterfit_reports_instead_of_raising")
    NQ, NT = 150, 1500

    def _cases(self, rng, n):
        for rep in range(n):
            nord, nbk, npts = rng.randint(2, 5), rng.randint(2, 7), rng.randint(5, 40)
            x = np.sort(np.array([rng.uniform(0, 10) for _ in range(npts)]))
            y = np.sin(x) + np.array([rng.gauss(0, 0.05) for _ in range(npts)])
            pat = rng.choice(["all_zero", "left_edge", "right_edge", "few_good", "random_zeros", "hole", "all_good"])
            w = np.ones(npts)
            if pat == "all_zero":
                w[:] = 0.0
            elif pat == "left_edge":
                w[x > x[0] + rng.uniform(0.2, 2.0)] = 0.0
            elif pat == "right_edge":
                w[x < x[-1] - rng.uniform(0.2, 2.0)] = 0.0
            elif pat == "few_good":
                w[:] = 0.0
                for k in rng.sample(range(npts), rng.randint(1, 3)):
                    w[k] = 10.0
            elif pat == "random_zeros":
                w[np.array([rng.random() < 0.5 for _ in range(npts)])] = 0.0
            elif pat == "hole":
                a = rng.uniform(1, 6)
                w[(x > a) & (x < a + rng.uniform(1, 4))] = 0.0
            yield dict(x=x, y=y, w=w, nord=nord, nbk=nbk, inp=dict(rep=rep, nord=nord, nbkpts=nbk, npoints=npts, weights=pat))

    def _check(self, c):
        from pydl.pydlutils.bspline import bspline, iterfit
        x, y, w = c["x"], c["y"], c["w"]
        bad = []
        with warnings.catch_warnings():
            warnings.simplefilter("ignore")
            s = bspline(x, nord=c["nord"], nbkpts=c["nbk"])
            statuses = []
            st, yfit = None, None
            for attempt in range(60):
                st, yfit = s.fit(x, y, w)
                statuses.append(st)
                if not isinstance(st, (int, np.integer)):
                    return [("every_attempt_returns_an_integer_status", "attempt %d returned %r" % (attempt + 1, st))]
                if st != -1:
                    break
            if st == -1:
                bad.append(("retries_settle_on_success_or_failure", "still -1 after %d attempts" % len(statuses)))
            elif st == 0:
                if not (np.all(np.isfinite(yfit)) and np.all(np.isfinite(s.coeff))):
                    bad.append(("success_means_finite_fit_and_solved_normal_equations", "status 0 with a non-finite fit (statuses %s)" % statuses))
                else:
                    # the stored coefficients reproduce yfit through value() at the good points
                    yv, mk = s.value(x)
                    if not np.allclose(yv[mk], yfit[mk], rtol=1e-8, atol=1e-8):
                        bad.append(("success_means_finite_fit_and_solved_normal_equations", "yfit differs from value() of the stored coefficients by %g" % np.abs(yv[mk] - yfit[mk]).max()))
                    # independent dense weighted least squares on the breakpoints that are still in use (scipy's B-spline basis)
                    ref = _dense_reference(s.breakpoints[s.mask], c["nord"], x, y, w)
                    if ref is not None:
                        inside, yref = ref
                        sel = inside & (w > 0)
                        if sel.any() and not np.allclose(yfit[sel], yref[sel], rtol=1e-5, atol=1e-5 * max(1.0, np.abs(y).max())):      # normal equations in double precision, conditioning <= 1e5
                            bad.append(("success_means_finite_fit_and_solved_normal_equations", "after statuses %s the fit differs from the dense weighted least-squares "
                                        "solution on the breakpoints in use by %g" % (statuses, np.abs(yfit[sel] - yref[sel]).max())))
                    # the same object fitted again to other abscissae (same number of points, same end points): no memory of the earlier call
                    if x.size > 4 and (w > 0).sum() > 2 * c["nord"]:
                        x2 = x.copy()
                        x2[1:-1] = np.sort(x[0] + (x[-1] - x[0]) * np.sort(np.random.RandomState(c["inp"]["rep"]).uniform(0.02, 0.98, x.size - 2)))
                        y2 = np.cos(x2)
                        st2, yfit2 = s.fit(x2, y2, w)
                        fresh = bspline(x, nord=c["nord"], nbkpts=c["nbk"])
                        fresh.mask = s.mask.copy() if st2 == 0 else fresh.mask
                        if st2 == 0:
                            fresh2 = bspline(x, nord=c["nord"], nbkpts=c["nbk"])
                            fresh2.mask[:] = s.mask
                            st3, yfit3 = fresh2.fit(x2, y2, w)
                            if st3 == 0 and not (np.allclose(yfit2, yfit3, rtol=1e-9, atol=1e-9) and np.allclose(s.coeff, fresh2.coeff, rtol=1e-9, atol=1e-9)):
                                bad.append(("success_means_finite_fit_and_solved_normal_equations", "a second fit on the same object (other abscissae) differs from the fit of a fresh "
                                            "object with the same knots and mask by %g" % np.abs(yfit2 - yfit3).max()))
            # the driver that performs the retries itself
            try:
                sset, outmask = iterfit(x, y, invvar=w, nord=c["nord"], nbkpts=c["nbk"], maxiter=5)
                if outmask.shape != x.shape:
                    bad.append(("iterfit_reports_instead_of_raising", "mask shape %s" % (outmask.shape,)))
            except Exception as e:
                # iterfit's own, explicit refusal of input without a single valid point is a related, deliberate exception
                if not (isinstance(e, ValueError) and "No valid data points" in str(e) and not (w > 0).any()):
                    bad.append(("iterfit_reports_instead_of_raising", "iterfit raised %s: %s" % (type(e).__name__, str(e)[:120])))
        return bad
