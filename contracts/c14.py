"""C14 -- IDL built-in replacements: smooth, uniq, median, rebin."""
import numpy as np
import z3
from pyvc.harness import FunctionContract, register
from pyvc.proxies import SInt, SReal, SBool, sym_int, sym_bool
from pyvc import arrays as A
from pyvc import spec as S


def _smooth_elem(signal, n, w, h, trunc, out, j):
    """what element j of smooth(signal, owidth) must be (from the property statement):
    centred boxcar mean of width w on interior points; edge points untouched, or with edge
    truncation the mean over the window with out-of-range samples replaced by the nearest edge value,
    i.e. (#out-of-range) * edge value + sum of the in-range samples."""
    left = j < h
    right = j > n - 1 - h
    interior_v = S.SUM(signal, j - h, j + h + 1) / S.real(w)
    left_v = (S.SUM(signal, 0, j + h + 1) + (h - j) * S.el(signal, 0)) / S.real(w)
    right_v = (S.SUM(signal, j - h, n) + (j - (n - 1 - h)) * S.el(signal, n - 1)) / S.real(w)
    edge_keep = S.eq(S.el(out, j), S.el(signal, j))
    return S.ite(left, S.ite(trunc, S.eq(S.el(out, j), left_v), edge_keep),
                 S.ite(right, S.ite(trunc, S.eq(S.el(out, j), right_v), edge_keep),
                       S.eq(S.el(out, j), interior_v)))


@register("C14")
class Smooth(FunctionContract):
    name = "smooth"
    target = "pydl.smooth:smooth"
    level = "P"
    expect_loops = 1
    nl_mode = "uf"
    assumptions = ["A1 floats as reals (boxcar sums are exact)", "SUM is an uninterpreted summation operator: "
                   "the obligation is that the code sums the window the property names, not numpy's summation order"]

    def inputs(self):
        n = sym_int("n")
        return dict(signal=A.SArr.symbolic(A.REAL, n.z, "signal"), owidth=sym_int("owidth"), edge_truncate=sym_bool("trunc"))

    def requires(self, signal, owidth, edge_truncate):
        n = S.size(signal)
        return S.AND(n >= 1, owidth >= 1, owidth <= n)

    def call(self, fn, signal, owidth, edge_truncate):
        self._sig_term0 = signal.term() if isinstance(signal, A.SArr) else signal.copy()
        return fn(signal, owidth, edge_truncate)

    def _wh(self, owidth):
        w = S.ite(owidth % 2 == 0, owidth + 1, owidth)
        return w, (w - 1) // 2

    def ensures(self, result, signal, owidth, edge_truncate):
        n = S.size(signal)
        w, h = self._wh(owidth)
        out = {}
        if isinstance(signal, A.SArr):
            small = SBool(w.z < 3) if isinstance(w, SInt) else (w < 3)
            if result is signal:
                out["narrow_returns_input"] = w < 3
                return out
            out["wide_not_input"] = w >= 3
            out["fresh_array"] = result.store is not signal.store
            out["input_unmodified"] = SBool(signal.term() == self._sig_term0) if signal.term() is not self._sig_term0 else True
        else:
            if w < 3:
                return {"narrow_returns_input": bool(np.array_equal(result, signal))}
            out["input_unmodified"] = bool(np.array_equal(signal, self._sig_term0))
        out["length"] = S.size(result) == n
        out["elements"] = S.forall(0, n, lambda j: _smooth_elem(signal, n, w, h, edge_truncate, result, j),
                                   patterns=lambda j: [S.el(result, j)])
        return out

    def loop_specs(self, a):
        signal, owidth, trunc = a["signal"], a["owidth"], a["edge_truncate"]
        n = S.size(signal)
        w, h = self._wh(owidth)

        def inv(v):
            i = v.i
            return [v.s.slen() == n,
                    S.forall(0, i, lambda j: _smooth_elem(signal, n, w, h, trunc, v.s, j), patterns=lambda j: [S.el(v.s, j)]),
                    S.forall(i, n, lambda j: S.eq(S.el(v.s, j), S.el(signal, j)), patterns=lambda j: [S.el(v.s, j)])]
        return {0: dict(inv=inv)}

    def samples(self, rng):
        for n in range(1, 9):
            for ow in range(1, n + 1):
                for tr in (False, True):
                    yield dict(signal=np.array([rng.uniform(-5, 5) for _ in range(n)]), owidth=ow, edge_truncate=tr)
