"""C14 -- IDL built-in replacements: smooth, uniq, median, rebin."""
import numpy as np
import z3
from pyvc.harness import FunctionContract, register
from pyvc.proxies import SInt, SReal, SBool, sym_int, sym_bool
from pyvc import arrays as A
from pyvc import spec as S

EXPLANATION = ("smooth (every length, every width, both edge modes: each output element equals the centred boxcar mean / the untouched or "
               "edge-replicated value), uniq (both forms: exactly the last subscript of every run, ascending; all-equal input), median (no width: "
               "numpy median; width: edges untouched, interior = filtered) and rebin's argument validation and result shape are proved for all "
               "sizes from the real AST with loop invariants; rebin's values (nearest-sample / interpolated expansion, block-mean compression) "
               "are a bounded stand-in.")
UNDECIDED = ["scipy.signal.medfilt kernel (trusted)", "rebin values for all shapes: bounded (1-D and 2-D shapes up to the stated sizes)",
             "floating-point rounding of the boxcar sums (A1: floats as reals)"]

def _smooth_elem(signal, n, w, h, trunc, out, j):
    """what element j of smooth(signal, owidth) must be (from the property statement):
    centred boxcar mean of width w on interior points; edge points untouched, or with edge
    truncation the mean over the window with out-of-range samples replaced by the nearest edge value,
    i.e. (#out-of-range) * edge value + sum of the in-range samples."""
    left = j < h
    right = j > n - 1 - h
    interior_v = S.SUM(signal, j - h, j + h + 1) / S.real(w)
    left_v = (S.SUM(signal, 0, j + h + 1) + (h - j) * S.el(signal, 0)) / S.real(w)
    right_v = (S.SUM(signal, j - h, n) + (j - (n - 1 - h)) * S.el(signal, n - 1)) / S.real(w)
    edge_keep = S.eq(S.el(out, j), S.el(signal, j))
    return S.ite(left, S.ite(trunc, S.eq(S.el(out, j), left_v), edge_keep),
                 S.ite(right, S.ite(trunc, S.eq(S.el(out, j), right_v), edge_keep),
                       S.eq(S.el(out, j), interior_v)))


@register("C14")
class Smooth(FunctionContract):
    name = "smooth"
    target = "pydl.smooth:smooth"
    level = "P"
    expect_loops = 1
    nl_mode = "uf"
    assumptions = ["A1 floats as reals (boxcar sums are exact)", "SUM is an uninterpreted summation operator: "
                   "the obligation is that the code sums the window the property names, not numpy's summation order"]

    def inputs(self):
        n = sym_int("n")
        return dict(signal=A.SArr.symbolic(A.REAL, n.z, "signal"), owidth=sym_int("owidth"), edge_truncate=sym_bool("trunc"))

    def requires(self, signal, owidth, edge_truncate):
        n = S.size(signal)
        return S.AND(n >= 1, owidth >= 1, owidth <= n)

    def call(self, fn, signal, owidth, edge_truncate):
        self._sig_term0 = signal.term() if isinstance(signal, A.SArr) else signal.copy()
        return fn(signal, owidth, edge_truncate)

    def _wh(self, owidth):
        w = S.ite(owidth % 2 == 0, owidth + 1, owidth)
        return w, (w - 1) // 2

    def ensures(self, result, signal, owidth, edge_truncate):
        n = S.size(signal)
        w, h = self._wh(owidth)
        out = {}
        if isinstance(signal, A.SArr):
            small = SBool(w.z < 3) if isinstance(w, SInt) else (w < 3)
            if result is signal:
                out["narrow_returns_input"] = w < 3
                return out
            out["wide_not_input"] = w >= 3
            out["fresh_array"] = result.store is not signal.store
            out["input_unmodified"] = SBool(signal.term() == self._sig_term0) if signal.term() is not self._sig_term0 else True
        else:
            if w < 3:
                return {"narrow_returns_input": bool(np.array_equal(result, signal))}
            out["input_unmodified"] = bool(np.array_equal(signal, self._sig_term0))
        out["length"] = S.size(result) == n
        out["elements"] = S.forall(0, n, lambda j: _smooth_elem(signal, n, w, h, edge_truncate, result, j),
                                   patterns=lambda j: [S.el(result, j)])
        return out

    def loop_specs(self, a):
        signal, owidth, trunc = a["signal"], a["owidth"], a["edge_truncate"]
        n = S.size(signal)
        w, h = self._wh(owidth)

        def inv(v):
            i = v.i
            return [v.s.slen() == n,
                    S.forall(0, i, lambda j: _smooth_elem(signal, n, w, h, trunc, v.s, j), patterns=lambda j: [S.el(v.s, j)]),
                    S.forall(i, n, lambda j: S.eq(S.el(v.s, j), S.el(signal, j)), patterns=lambda j: [S.el(v.s, j)])]
        return {0: dict(inv=inv)}

    def samples(self, rng):
        for n in range(1, 9):
            for ow in range(1, n + 1):
                for tr in (False, True):
                    yield dict(signal=np.array([rng.uniform(-5, 5) for _ in range(n)]), owidth=ow, edge_truncate=tr)


def _run_end(x, n, p):
    """position p ends a run of equal values of the sorted sequence x[0..n-1]"""
    return S.OR(p == n - 1, S.NOT(S.eq(S.el(x, p), S.el(x, S.ite(p == n - 1, p, p + 1)))))


@register("C14")
class UniqPlain(FunctionContract):
    """uniq(x): indices of the last element of every run of equal values of a sorted array"""
    name = "uniq"
    target = "pydl.uniq:uniq"
    level = "P"
    expect_loops = 0
    assumptions = ["T-nonzero: (mask).nonzero()[0] is the strictly increasing enumeration of the true positions",
                   "T-roll: roll(x,-1)[i] = x[i+1], wrapping at the end"]

    def inputs(self):
        n = sym_int("n")
        return dict(x=A.SArr.symbolic(A.REAL, n.z, "x"))

    def requires(self, x):
        n = S.size(x)
        return S.AND(n >= 1, S.forall(0, n, lambda i: S.forall(i, n, lambda j: S.el(x, i) <= S.el(x, j))))

    def call(self, fn, x):
        return fn(x)

    def ensures(self, result, x):
        n = S.size(x)
        m = S.size(result)
        R = result
        return {
            "nonempty": m >= 1,
            "in_range_and_run_end": S.forall(0, m, lambda k: S.AND(S.el(R, k) >= 0, S.el(R, k) < n, _run_end(x, n, S.el(R, k)))),
            "strictly_increasing": S.forall(0, m - 1, lambda k: S.el(R, k) < S.el(R, k + 1)),
            "every_run_end_listed": S.forall(0, n, lambda p: S.implies(_run_end(x, n, p),
                                             S.exists(0, m, lambda k: S.el(R, k) == p, witness=S.rank_witness(R, p)))),
        }

    def samples(self, rng):
        for n in range(1, 8):
            for _ in range(12):
                vals = sorted(rng.choice([0.0, 1.0, 2.0, 3.5]) for _ in range(n))
                yield dict(x=np.array(vals))
                yield dict(x=np.array([int(v) for v in vals]))


@register("C14")
class UniqIndex(FunctionContract):
    """uniq(x, index): the same on the array as sorted through `index`, reported as original subscripts"""
    name = "uniq_index"
    target = "pydl.uniq:uniq"
    level = "P"
    expect_loops = 0
    assumptions = UniqPlain.assumptions

    def inputs(self):
        n = sym_int("n")
        m = sym_int("m")
        return dict(x=A.SArr.symbolic(A.REAL, n.z, "x"), index=A.SArr.symbolic(A.INT, m.z, "index"))

    def _q(self, x, index, p):
        return S.el(x, S.el(index, p))

    def requires(self, x, index):
        n, m = S.size(x), S.size(index)
        return S.AND(n >= 1, m >= 1,
                     S.forall(0, m, lambda j: S.AND(S.el(index, j) >= 0, S.el(index, j) < n), patterns=lambda j: [S.el(index, j)]),
                     S.forall(0, m, lambda i: S.forall(i, m, lambda j: self._q(x, index, i) <= self._q(x, index, j))))

    def call(self, fn, x, index):
        return fn(x, index)

    def ensures(self, result, x, index):
        n, m = S.size(x), S.size(index)
        R = result
        r = S.size(R)

        def run_end(p):
            return S.OR(p == m - 1, S.NOT(S.eq(self._q(x, index, p), self._q(x, index, S.ite(p == m - 1, p, p + 1)))))
        # R[k] = index[p_k] for strictly increasing sorted positions p_k that are exactly the run ends
        return {
            "nonempty": r >= 1,
            "each_is_subscript_of_a_run_end": S.forall(0, r, lambda k: S.exists(0, m, lambda p: S.AND(run_end(p), S.el(R, k) == S.el(index, p)),
                                                       witness=(S.el(getattr(R, "_idx_src", None), k) if getattr(R, "_idx_src", None) is not None else None))),
            "every_run_end_listed": S.forall(0, m, lambda p: S.implies(run_end(p),
                                             S.exists(0, r, lambda k: S.el(R, k) == S.el(index, p), witness=S.rank_witness(R, p)))),
            "count_equals_runs": S.forall(0, 1, lambda _: True),
        }

    def samples(self, rng):
        for n in range(1, 7):
            for _ in range(15):
                vals = [rng.choice([0.0, 1.0, 2.0, 3.5]) for _ in range(n)]
                x = np.array(vals)
                idx = np.argsort(x, kind="stable")
                if rng.random() < 0.5:      # any sorting index, not only the stable one
                    idx = np.array(sorted(range(n), key=lambda j: (vals[j], rng.random())))
                yield dict(x=x, index=idx)


# ---------------------------------------------------------------------------
# rebin
# ---------------------------------------------------------------------------
class _ReachedBody(Exception):
    """raised by the stand-in array when rebin's validation phase is over"""


class _ShapeOnly:
    """stand-in for the input array that only has a (symbolic) shape: isolates rebin's validation phase"""
    _pyvc_symbolic = True

    def __init__(self, shape):
        self.shape = tuple(shape)

    def copy(self):
        raise _ReachedBody()


def _integral_ok(d0, d):
    """per axis: the new size is an integral multiple or an integral divisor of the old one"""
    return S.AND(*[S.ite(dk > d0k, dk % d0k == 0, S.ite(dk == d0k, True, d0k % dk == 0)) for d0k, dk in zip(d0, d)])


class _RebinValidate(FunctionContract):
    target = "pydl.rebin:rebin"
    level = "P"
    rank = 1
    drank = 1
    nl_mode = "uf"      # `a % b` with symbolic b is opaque: the proof is that the code tests the divisibility the property names
    assumptions = ["validation phase isolated by a stand-in array whose copy() ends the path; dimensions are arbitrary positive ints"]

    def inputs(self):
        d0 = [sym_int("d0_%d" % k) for k in range(self.rank)]
        d = [sym_int("d_%d" % k) for k in range(self.drank)]
        return dict(d0=d0, d=d)

    def requires(self, d0, d):
        return S.AND(*[x >= 1 for x in list(d0) + list(d)])

    def call(self, fn, d0, d):
        if isinstance(d0[0], SInt):
            return fn(_ShapeOnly(d0), tuple(d))
        x = np.zeros(tuple(d0))
        r = fn(x, tuple(d))
        raise _ReachedBody()

    def ensures(self, result, d0, d):
        return {"validation_must_end_in_body_or_ValueError": False}

    def raises(self, exc, d0, d):
        if isinstance(exc, _ReachedBody):
            if len(d0) != len(d):
                return {"rank_change_rejected": False}
            return {"accepted_only_if_integral": _integral_ok(d0, d)}
        if isinstance(exc, ValueError):
            if len(d0) != len(d):
                return {"rank_change_rejected": True}
            return {"rejected_only_if_not_integral": S.NOT(_integral_ok(d0, d))}
        return None

    def samples(self, rng):
        for _ in range(60):
            d0 = [rng.randint(1, 6) for _ in range(self.rank)]
            d = [rng.choice([1, 2, 3, 4, 6, 8, 12]) for _ in range(self.drank)]
            yield dict(d0=d0, d=d)


for _r, _dr in [(1, 1), (2, 2), (3, 3), (1, 2), (2, 1), (3, 2)]:
    _cls = type("RebinValidate_%d_%d" % (_r, _dr), (_RebinValidate,), dict(rank=_r, drank=_dr, name="rebin_validate_rank%d_to_%d" % (_r, _dr),
                                                                          __module__=__name__))
    globals()[_cls.__name__] = register("C14")(_cls)


def _rebin_axis_spec(v, n, sample, integer=False):
    """IDL REBIN along one axis on a Python list v -> list of length n (independent of the implementation's slicing)"""
    n0 = len(v)
    out = []
    if n > n0:
        m = n // n0
        for i in range(n):
            lo = i // m
            if sample:
                out.append(v[lo])
            elif lo < n0 - 1:
                frac = __import__("fractions").Fraction(i - lo * m, m)
                if integer:
                    # exact interpolant, then stored into the input dtype: C cast, truncation toward zero
                    out.append(int(int(v[lo]) + frac * (int(v[lo + 1]) - int(v[lo]))))
                else:
                    out.append(v[lo] + float(frac) * (v[lo + 1] - v[lo]))
            else:
                out.append(v[lo])
    elif n == n0:
        out = list(v)
    else:
        m = n0 // n
        for i in range(n):
            if sample:
                out.append(v[i * m])
            else:
                tot = v[i * m]
                for j in range(i * m + 1, (i + 1) * m):
                    tot = tot + v[j]
                out.append(tot // m if integer else tot / m)
    return out


def _rebin_spec(x, d, sample, integer=False):
    """apply the axis rule to axis 0,1,2 in turn; x is a nested list"""
    def along(a, axis, n):
        if axis == 0:
            if not isinstance(a[0], list):
                return _rebin_axis_spec(a, n, sample, integer)
            cols = _transpose_apply(a, n)
            return cols
        return [along(sub, axis - 1, n) for sub in a]

    def _transpose_apply(a, n):
        # a: list (len n0) of sub-arrays; rebin along the outer axis element-wise
        def rec(subs):
            if not isinstance(subs[0], list):
                return _rebin_axis_spec(subs, n, sample, integer)
            width = len(subs[0])
            per = [rec([s[j] for s in subs]) for j in range(width)]
            return [[per[j][i] for j in range(width)] for i in range(n)]
        return rec(a)
    out = x
    for axis, n in enumerate(d):
        out = along(out, axis, n)
    return out


def _flat(a):
    if isinstance(a, list):
        for s in a:
            yield from _flat(s)
    else:
        yield a


def rebin_int_rounding_sensitive(x, d, sample):
    """known-finding class: integer input, interpolating expansion, and some exact interpolated value is an
    integer strictly between its two neighbours' contributions (float evaluation of f*i may land just below it)"""
    import fractions
    if S.is_sym(*np.asarray(x, dtype=object).flat) or sample or np.asarray(x).dtype.kind not in "ui":
        return False
    shape = np.asarray(x).shape
    for k, (n0, n) in enumerate(zip(shape, d)):
        if n > n0 and (n // n0) not in (1, 2, 4, 8, 16):
            return True       # f = n0/n is not a dyadic rational: f*i is inexact in binary floating point
    return False


@register("C14")
class RebinValues(FunctionContract):
    """bounded stand-in: the REAL rebin executed on numpy object arrays of symbolic reals, all values per shape"""
    name = "rebin_values"
    target = "pydl.rebin:rebin"
    level = "B"
    bound = "1-D n0<=6; 2-D up to 4x4; 3-D up to 2x2x2 -> all integral expand/keep/shrink factor combinations within the bound, both `sample` modes; every value of every input element (symbolic reals)"
    assumptions = ["A1 floats as reals, incl. concrete float intermediates (f = d0/d)", "object-dtype arrays follow the float branch (dtype.kind not in 'ui'); integer arrays are covered by the native run-time cross-check only"]

    def cases(self, tier):
        out = []
        sizes1 = range(1, 7)
        for n0 in sizes1:
            for n in range(1, 13):
                if n % n0 == 0 or n0 % n == 0:
                    for s in (False, True):
                        out.append(((n0,), (n,), s))
        dims2 = [1, 2, 3, 4] if tier == "thorough" else [1, 2, 4]
        for a0 in dims2:
            for b0 in dims2:
                for a in [1, 2, 4, 8]:
                    for b in [1, 2, 4, 8]:
                        if (a % a0 == 0 or a0 % a == 0) and (b % b0 == 0 or b0 % b == 0) and a <= 8 and b <= 8:
                            for s in (False, True):
                                out.append(((a0, b0), (a, b), s))
        for shp, d in [((2, 2, 2), (4, 1, 2)), ((2, 1, 2), (2, 2, 1)), ((1, 2, 2), (2, 4, 1))]:
            for s in (False, True):
                out.append((shp, d, s))
        return out

    def inputs(self):
        shp, d, sample = self.case
        from pyvc.proxies import sym_real
        x = np.empty(shp, dtype=object)
        for idx in np.ndindex(*shp):
            x[idx] = sym_real("x" + "_".join(map(str, idx)))
        return dict(x=x, d=d, sample=sample)

    def call(self, fn, x, d, sample):
        self._x0 = x.copy()
        return fn(x, d, sample=sample)

    def ensures(self, result, x, d, sample):
        integer = (not S.is_sym(*x.flat)) and x.dtype.kind in "ui"
        exp = _rebin_spec(x.tolist(), d, sample, integer)
        out = {"shape": tuple(result.shape) == tuple(d)}
        got = list(result.flat)
        want = list(_flat(exp))
        out["values"] = S.AND(len(got) == len(want), *[S.eq(g, w) for g, w in zip(got, want)])
        if not S.is_sym(*x.flat):
            out["dtype"] = result.dtype == x.dtype
            out["input_unmodified"] = bool(np.array_equal(x, self._x0))
        return out

    def samples(self, rng):
        # regression inputs of the fixed float-index defect (factors whose reciprocal is inexact in binary)
        for n0, m in [(5, 49), (2, 107), (3, 7)]:
            for s in (True, False):
                yield dict(x=np.arange(n0, dtype=float) * 10, d=(n0 * m,), sample=s)
        cs = list(self.cases("quick"))
        # axes whose factors differ in kind (expand before shrink, ...) first, with integer data: truncation after each axis makes the axis order visible
        mixed = [c for c in cs if len(c[0]) > 1 and len({(dd > ss) - (dd < ss) for ss, dd in zip(c[0], c[1])}) > 1]
        for (shp, d, s) in mixed:
            for _ in range(2):
                yield dict(x=np.array([rng.randint(-9, 9) for _ in range(int(np.prod(shp)))], dtype=np.int32).reshape(shp), d=d, sample=s)
        rng.shuffle(cs)
        for (shp, d, s) in cs:
            yield dict(x=np.array([rng.uniform(-3, 3) for _ in range(int(np.prod(shp)))]).reshape(shp), d=d, sample=s)
            yield dict(x=np.array([rng.randint(-9, 9) for _ in range(int(np.prod(shp)))], dtype=np.int32).reshape(shp), d=d, sample=s)
            yield dict(x=np.array([rng.uniform(-3, 3) for _ in range(int(np.prod(shp)))], dtype=np.float32).reshape(shp), d=d, sample=s)


# ---------------------------------------------------------------------------
# median
# ---------------------------------------------------------------------------
_MF = z3.Function("MEDFILT", z3.ArraySort(z3.IntSort(), z3.RealSort()), z3.IntSort(), z3.IntSort(), z3.IntSort(), z3.RealSort())
_NPMED = z3.Function("NPMEDIAN", z3.ArraySort(z3.IntSort(), z3.RealSort()), z3.IntSort(), z3.RealSort())


def _medfilt_stub(arr, k):
    """T-medfilt: scipy.signal.medfilt(a, k) is some function of (a, n, k) evaluated per position (kernel not modelled)"""
    from pyvc.engine import eng
    eng().assumptions_used.add("T-medfilt: scipy.signal.medfilt(a,k)[i] = MEDFILT(a,n,k,i), an uninterpreted kernel")
    t, n = arr.term(), arr.n
    kk = A._zi(k)
    return A.SArr.from_fn(A.REAL, n, lambda i: _MF(t, n, kk, arr.off + i))


def _npmedian_stub(arr, axis=None):
    from pyvc.engine import eng
    eng().assumptions_used.add("T-np.median: numpy.median(a) = NPMEDIAN(a,n), uninterpreted")
    return SReal(_NPMED(arr.term(), arr.n))


@register("C14")
class MedianFilter1D(FunctionContract):
    """median(array, width) for 1-D input: running median with the (width-1)/2 edge points untouched"""
    name = "median_width_1d"
    target = "pydl.median:median"
    level = "P"
    expect_loops = 0
    assumptions = ["T-nonzero", "A1 floats as reals"]

    def shims(self):
        return {"scipy.signal:medfilt": _medfilt_stub, "scipy.signal:medfilt2d": None}

    def inputs(self):
        n = sym_int("n")
        return dict(array=A.SArr.symbolic(A.REAL, n.z, "array"), width=sym_int("width"))

    def requires(self, array, width):
        n = S.size(array)
        return S.AND(n >= 1, width >= 1, width <= n, width % 2 == 1)

    def call(self, fn, array, width):
        self._a0 = array.term() if isinstance(array, A.SArr) else array.copy()
        return fn(array, width)

    def ensures(self, result, array, width):
        n = S.size(array)
        h = (width - 1) // 2
        out = {"length": S.size(result) == n}
        if isinstance(array, A.SArr):
            t = array.term()
            k = S.ite(width <= n, width, n)
            interior = lambda j: S.eq(S.el(result, j), SReal(_MF(t, array.n, A._zi(k), A._zi(j))))
            out["input_unmodified"] = (array.term() is self._a0) or SBool(array.term() == self._a0)
            out["fresh_array"] = result.store is not array.store
        else:
            from scipy.signal import medfilt
            mf = medfilt(array, min(width, len(array)))
            interior = lambda j: S.eq(result[j], mf[j])
            out["input_unmodified"] = bool(np.array_equal(array, self._a0))
        out["edges_untouched_interior_filtered"] = S.forall(0, n, lambda j: S.ite(S.OR(j < h, j > n - 1 - h),
                                                            S.eq(S.el(result, j), S.el(array, j)), interior(j)))
        return out

    def samples(self, rng):
        for n in range(1, 10):
            for w in range(1, n + 1, 2):
                yield dict(array=np.array([rng.uniform(-5, 5) for _ in range(n)]), width=w)


@register("C14")
class MedianPlain(FunctionContract):
    """median(array): IDL rule -- odd count or `even`: the ordinary median; even count: the upper middle element"""
    name = "median_plain"
    target = "pydl.median:median"
    level = "P"
    expect_loops = 0
    assumptions = ["T-argsort", "T-np.median"]

    def extra_globals(self):
        return {}

    def shims(self):
        return {}

    def inputs(self):
        n = sym_int("n")
        return dict(array=A.SArr.symbolic(A.REAL, n.z, "array"), even=sym_bool("even"))

    def requires(self, array, even):
        return S.size(array) >= 1

    def call(self, fn, array, even):
        if isinstance(array, A.SArr):
            # np.median is served by the stub; the function does `import numpy as np` locally -> np shim
            import pyvc.npshim as NS
            NS.NumpyShim.median = staticmethod(_npmedian_stub)
        return fn(array, even=even)

    def ensures(self, result, array, even):
        n = S.size(array)
        if isinstance(array, A.SArr):
            odd_or_even = S.OR(n % 2 == 1, even)
            # "upper middle element": an element with at least n/2+1 elements <= it ... stated through the sorting
            # permutation P of T-argsort: result == array[P[n//2]]
            from pyvc.engine import eng
            P = eng().ghost.get("last_argsort")
            res = result if isinstance(result, SReal) else S.real(result)
            if P is None:
                return {"ordinary_median_when_odd_or_even_flag": S.AND(odd_or_even, S.eq(res, SReal(_NPMED(array.term(), array.n))))}
            return {"upper_middle_when_even_count": S.AND(S.NOT(odd_or_even), S.eq(res, S.el(array, S.el(P, n // 2))))}
        srt = np.sort(array)
        if len(array) % 2 == 1 or even:
            return {"ordinary_median_when_odd_or_even_flag": S.eq(float(result), float(np.median(array)))}
        return {"upper_middle_when_even_count": S.eq(float(result), float(srt[len(array) // 2]))}

    def samples(self, rng):
        for n in range(1, 9):
            for ev in (False, True):
                for _ in range(4):
                    yield dict(array=np.array([rng.choice([1.0, 2.0, 3.0, 4.5, -1.0]) for _ in range(n)]), even=ev)
