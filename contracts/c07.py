"""C07 -- bitmask names and values convert consistently for any maskbits file."""
import itertools
import os
import tempfile
import numpy as np
import z3
from pyvc.harness import FunctionContract, register, JobResult
from pyvc.proxies import SInt, SBV, SBool, SPyInt, sym_pyint, sym_bool
from pyvc import arrays as A
from pyvc import spec as S

EVIDENCE_LEVEL = "proof"
EXPLANATION = ("sdss_flagval == OR of 2**bit proved for every assignment of distinct bits 0..63 to a group's labels (uint64 as 64-bit "
               "vectors); name listing, round trips, aliases, case folding, KeyError rules and the existence query are bounded stand-ins.")
UNDECIDED = ["the raw yanny read that feeds set_maskbits (C02)", "files whose labels or group names are not upper case: table keys are taken verbatim from the file "
             "while queries are upper-cased (not case-insensitive for such files; not decided as a defect: SDSS maskbits files are upper case)"]

LABELS = ["ALPHA", "BRAVO", "CHARLIE", "DELTA"]


def _table(bits, alias=True):
    t = {"GROUP": {LABELS[k]: bits[k] for k in range(len(bits))}, "OTHER": {"X": 3}}
    if alias:
        t["ALIAS"] = dict(t["GROUP"])
    return t


@register("C07")
class FlagvalOr(FunctionContract):
    """names -> value: exactly the OR of 2**bit, for every assignment of distinct bits to the labels"""
    name = "sdss_flagval"
    target = "pydl.pydlutils.sdss:sdss_flagval"
    level = "C"
    int_mode = "bv"
    force_symbolic = True
    scalar_ctors = True
    bound = "a group of 1..4 labels, every ordered selection of distinct labels (any case), group or alias name"
    assumptions = ["bits are arbitrary distinct values in 0..63 (symbolic, 64-bit vectors); the label table is a Python dict with concrete keys"]

    def cases(self, tier):
        out = []
        for k in range(1, 5):
            for r in range(1, k + 1):
                for sel in itertools.permutations(range(k), r):
                    if tier == "quick" and r == 3 and sel != tuple(sorted(sel)) and sel != tuple(sorted(sel, reverse=True)):
                        continue
                    out.append((k, sel))
        return out

    def case_label(self):
        return "[labels=%d,chosen=%d]" % (self.case[0], len(self.case[1]))

    def inputs(self):
        k, sel = self.case
        return dict(bits=[sym_pyint("bit%d" % j) for j in range(k)], sel=list(sel), group="alias" if len(sel) % 2 == 0 else "Group")

    def requires(self, bits, sel, group):
        cl = [S.AND(b >= 0, b <= 63) for b in bits]
        for i in range(len(bits)):
            for j in range(i + 1, len(bits)):
                cl.append(S.NOT(bits[i] == bits[j]))
        return S.AND(*cl)

    def extra_globals(self):
        return {}

    def call(self, fn, bits, sel, group):
        names = [LABELS[j].lower() if j % 2 else LABELS[j] for j in sel]
        table = _table(bits)
        g = getattr(fn, "__globals__", None)
        if g is not None and "__pv" in g:
            g["maskbits"] = table
            return fn(group, names if len(names) > 1 else names[0])
        import pydl.pydlutils.sdss as m
        from unittest import mock
        with mock.patch.object(m, "maskbits", {a: {l: int(v) for l, v in d.items()} for a, d in table.items()}):
            return m.sdss_flagval(group, names if len(names) > 1 else names[0])

    def ensures(self, result, bits, sel, group):
        if isinstance(result, SBV):
            want = z3.BitVecVal(0, 64)
            for j in sel:
                want = want | (z3.BitVecVal(1, 64) << bits[j].z)
            return {"value_is_or_of_2_to_bit": SBool(result.z == want), "is_uint64": (result.bits == 64 and not result.signed)}
        want = 0
        for j in sel:
            want |= 1 << int(bits[j])
        return {"value_is_or_of_2_to_bit": int(result) == want, "is_uint64": isinstance(result, np.uint64)}

    def samples(self, rng):
        for _ in range(150):
            k = rng.randint(1, 4)
            bits = rng.sample(range(64), k)
            if rng.random() < 0.3:
                bits[0] = 63
            r = rng.randint(1, k)
            yield dict(bits=bits, sel=rng.sample(range(k), r), group=rng.choice(["GROUP", "group", "Alias", "ALIAS"]))


@register("C07")
class FlagTables:
    """flagname / round trips / KeyError rules / flagexist / set_maskbits on generated maskbits files (bounded stand-in)"""
    name = "flag_tables"
    prop = "C07"
    target = "pydl.pydlutils.sdss:set_maskbits, sdss_flagname, sdss_flagval, sdss_flagexist"
    level = "B"

    def run_job(self, tier, seed, exclusions):
        import random
        import time
        import traceback
        t0 = time.time()
        res = JobResult(job=self.name, target=self.target, level="B", prop="C07", obligations=[], failures=[], crashed=None,
                        bound="generated maskbits files: 1..3 groups, sparse bit assignments incl. bit 63, aliases; for each file every subset of "
                              "<=4 labels in two orders and mixed case, and every 64-bit value over 7 probe positions (defined bits, bit 63, undefined bits)",
                        paths=0, solver_s=0.0, queries=0, native_runs=0, native_failures=[], vacuity=None,
                        assumptions=["real functions on real files written to a temporary directory; values/files enumerated within the stated bound"])
        try:
            import pydl.pydlutils.sdss as m
            rng = random.Random(seed * 31 + 7)
            nfiles = 6 if tier == "quick" else 30
            rng_groups = lambda: rng.randint(2, 3)
            problems = {}
            count = 0

            def note(kind, msg, inp):
                problems.setdefault(kind, []).append((msg, inp))
            saved = m.maskbits
            try:
                parsed = []
                for fi in range(nfiles):
                    groups = {}
                    for gi in range(rng.randint(1, 3) if fi else 3):
                        nb = rng.randint(1, 5)
                        bits = rng.sample(range(63), nb)
                        if gi == 0:
                            bits[0] = 63
                        groups["GRP%d" % gi] = {"LBL%d_%d" % (gi, j): bits[j] for j in range(nb)}
                    aliases = {"AKA%d" % gi: "GRP%d" % gi for gi in range(len(groups)) if rng.random() < 0.8}
                    if fi == 0:
                        aliases = {"AKA%d" % gi: "GRP%d" % gi for gi in range(len(groups))}
                    with tempfile.TemporaryDirectory() as tmp:
                        fn = os.path.join(tmp, "bits.par")
                        with open(fn, "w") as f:
                            f.write("typedef struct {\n char flag[20];\n short bit;\n char label[30];\n char description[100];\n} maskbits;\n\n")
                            f.write("typedef struct {\n char flag[20];\n char alias[20];\n} maskalias;\n\n")
                            for g, d in groups.items():
                                f.write("# group %s\n" % g)
                                for j, (lab, b) in enumerate(d.items()):
                                    # rows indented, tab-separated or in lower-case structure name: all admissible layouts
                                    lead = ["", "  ", "\t"][(fi + j) % 3]
                                    sp = [" ", "\t", "  \t "][(fi + 2 * j) % 3]        # blanks, a tab, or both between the tokens
                                    f.write(lead + sp.join(["maskbits", g, str(b), lab, '"a description"']) + "\n")
                            for k, (a, g) in enumerate(aliases.items()):
                                f.write("%smaskalias%s%s%s%s\n" % ("    " if k % 2 else "", ["\t", " "][(fi + k) % 2], g, [" ", "\t"][(fi + k) % 2], a))
                        try:
                            table = m.set_maskbits(maskbits_file=fn)
                        except Exception as e:
                            note("set_maskbits:table", "set_maskbits raised %s: %s" % (type(e).__name__, e), dict(groups=groups, aliases=aliases))
                            continue
                    parsed.append((groups, aliases, table))
                # all files are parsed first and the tables are then installed one after the other by assignment (the documented way:
                # ``sdss.maskbits = set_maskbits(...)``), so that nothing remembered from an earlier table may leak into a later one
                for groups, aliases, table in parsed + parsed[:2]:
                    want = {g: dict(d) for g, d in groups.items()}
                    for a, g in aliases.items():
                        want[a] = dict(groups[g])
                    try:
                        got = {g: {l: int(b) for l, b in d.items()} for g, d in table.items()}
                    except Exception as e:
                        got = "unreadable table: %s" % e
                    count += 1
                    if got != want:
                        note("set_maskbits:table", "table differs from file", dict(groups=groups, aliases=aliases))
                        continue
                    m.maskbits = table
                    for g in want:
                      try:
                            labs = sorted(want[g], key=lambda l: want[g][l])
                            defined = set(want[g].values())
                            probes = sorted(set(labs_b for labs_b in list(defined)[:4]) | {63} | {next(b for b in range(64) if b not in defined)})
                            probes = probes[:7]
                            for mask in range(1 << len(probes)):
                                v = 0
                                for j, pb in enumerate(probes):
                                    if (mask >> j) & 1:
                                        v |= 1 << pb
                                count += 1
                                for name in (g, g.lower()):
                                    names = m.sdss_flagname(name, v)
                                    exp = [l for l in labs if (v >> want[g][l]) & 1]
                                    if names != exp:
                                        note("flagname:defined_set_bits_ascending", "flagname(%s,%d)=%s expected %s" % (name, v, names, exp), dict(groups=groups, value=v, group=name))
                                    back = int(m.sdss_flagval(name, names)) if names else 0
                                    vdef = sum(1 << want[g][l] for l in exp)
                                    if back != vdef:
                                        note("roundtrip:value_names_value", "value->names->value %d -> %s -> %d" % (v, names, back), dict(groups=groups, value=v, group=name))
                            for r in range(0, min(4, len(labs)) + 1):
                                for sub in itertools.combinations(labs, r):
                                    for order in (sub, tuple(reversed(sub))):
                                        mixed = [l.lower() if k % 2 else l for k, l in enumerate(order)]
                                        count += 1
                                        if mixed:
                                            val = int(m.sdss_flagval(g.lower(), mixed))
                                            if val != sum(1 << want[g][l] for l in sub):
                                                note("flagval:or_of_bits", "flagval(%s)=%d" % (mixed, val), dict(groups=groups, labels=mixed, group=g))
                                            nm = m.sdss_flagname(g, val)
                                            if nm != sorted(sub, key=lambda l: want[g][l]):
                                                note("roundtrip:names_value_names", "%s -> %d -> %s" % (mixed, val, nm), dict(groups=groups, labels=mixed, group=g))
                                            ex = m.sdss_flagexist(g, mixed, flagexist=True, whichexist=True)
                                            if ex != (True, True, [True] * len(mixed)):
                                                note("flagexist:reports", "flagexist(%s,%s)=%s" % (g, mixed, ex), dict(groups=groups))
                      except Exception as e:
                        note("flagval:or_of_bits", "unexpected %s: %s for group %s" % (type(e).__name__, e, g), dict(groups=groups, group=g))
                    # unknown group / label rules
                    for fnc, args, kind in ((m.sdss_flagval, ("NOSUCH", "LBL0_0"), "KeyError"), (m.sdss_flagval, ("GRP0", "NOSUCHLABEL"), "KeyError"),
                                            (m.sdss_flagname, ("NOSUCH", 5), "KeyError")):
                        count += 1
                        try:
                            fnc(*args)
                            note("keyerror:unknown_names", "%s%s did not raise" % (fnc.__name__, args), dict(groups=groups))
                        except KeyError:
                            pass
                        except Exception as e:
                            note("keyerror:unknown_names", "%s%s raised %s" % (fnc.__name__, args, type(e).__name__), dict(groups=groups))
                    try:
                        if m.sdss_flagname("NOSUCH", 0) != []:
                            note("zero:names_no_bits", "flagname(unknown group, 0) != []", dict(groups=groups))
                        ex = m.sdss_flagexist("NOSUCH", ["A", "LBL0_0"], flagexist=True, whichexist=True)
                        if ex != (False, False, [False, False]):
                            note("flagexist:reports", "flagexist(unknown)=%s" % (ex,), dict(groups=groups))
                        ex = m.sdss_flagexist("GRP0", ["nosuch", list(groups["GRP0"])[0]], whichexist=True)
                        if ex != (False, [False, True]):
                            note("flagexist:reports", "flagexist(partly known)=%s" % (ex,), dict(groups=groups))
                    except Exception as e:
                        note("zero:names_no_bits", "raised %s: %s" % (type(e).__name__, e), dict(groups=groups))
            finally:
                m.maskbits = saved
            res["paths"] = res["native_runs"] = count
            kinds = ["set_maskbits:table", "flagname:defined_set_bits_ascending", "roundtrip:value_names_value", "flagval:or_of_bits",
                     "roundtrip:names_value_names", "flagexist:reports", "keyerror:unknown_names", "zero:names_no_bits"]
            for kd in kinds:
                bad = problems.get(kd, [])
                d = dict(name="flag_tables:" + kd, path=0, status="unsat" if not bad else "sat", secs=0.0, backend="native-exhaustive", size=0,
                         note="" if not bad else bad[0][0])
                if bad:
                    d.update(inputs=bad[0][1], model=str(bad[:2])[:2000], reason="")
                res["obligations"].append(d)
            res["vacuity"] = dict(cases=count)
        except Exception:
            res["crashed"] = traceback.format_exc()
        res["wall_s"] = time.time() - t0
        return res

    def native_replay(self, inputs):
        return (False, "re-run ./check C07 to re-evaluate on the generated files (inputs: %s)" % (str(inputs)[:300],))
