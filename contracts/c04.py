"""C04 -- spherematch returns exactly the pairs closer than the match length."""
import itertools
import types
import numpy as np
import z3
from pyvc.harness import FunctionContract, register, JobResult
from pyvc.proxies import SInt, SReal, SBool, sym_real, sym_bool
from pyvc.engine import eng
from pyvc import arrays as A
from pyvc import spec as S

EVIDENCE_LEVEL = "other"
EXPLANATION = ("Bounded stand-in only: the real spherematch (pair loop, sort, maxmatch bookkeeping) is executed under the forking driver with "
               "symbolic separations for every candidate-cell layout of <=3 x <=3 points: no pair at or beyond the match length, each pair with "
               "its own separation, once, in non-decreasing order; maxmatch=k is the distance-ordered greedy selection. The spatial hash "
               "(chunks.assign/get: which candidates a cell holds) is replaced by an arbitrary candidate relation.")
UNDECIDED = ["completeness of the spatial hash (every pair closer than the match length is among the candidates of its cell: RA margins scaled by "
             "cos(dec), seam rotation, polar caps) is only compared with brute force on generated point sets (spherematch_vs_brute_force, bounded); "
             "chunks.assign / getbounds / get have no symbolic contract",
             "all sizes: the bookkeeping loops are decided only up to the stated bounds"]


class _ChunksStub:
    """chunks stand-in: get() puts first-list point i in cell i; chunkList[0][i] = the candidate second-list points for i"""
    candidates = None

    def __init__(self, ra, dec, chunksize):
        self.raOffset = 0.0
        self.chunkList = [[list(c) for c in type(self).candidates]]
        self._next = 0

    def assign(self, ra, dec, margin):
        pass

    def get(self, ra, dec):
        i = int(round(float(dec)))       # the stub encodes the point index in dec
        return (i, 0)


def _all_candidate_layouts(n1, n2):
    subsets = [s for k in range(0, n2 + 1) for s in itertools.combinations(range(n2), k)]
    return itertools.product(subsets, repeat=n1)


class _SpherematchBookkeeping(FunctionContract):
    name = "spherematch_bookkeeping"
    shape = (2, 2)
    target = "pydl.pydlutils.spheregroup:spherematch"
    level = "B"
    bound = "2..3 first-list points x 1..3 second-list points, every assignment of candidate sets to cells with <=3 candidate pairs (quick; <=5 thorough, incl. 3x3), maxmatch 0..2, all real separations (symbolic)"
    max_paths = 200000
    nmode = True
    budget_s = 120
    job_budget_s = 500
    assumptions = ["chunks (spatial hash) replaced by an arbitrary candidate relation without duplicate entries per cell", "gcirc replaced by an arbitrary "
                   "non-negative separation per pair (its contract, C18)", "A1 floats as reals; argsort on distinct or tied distances explored by forking"]

    def cases(self, tier):
        shapes = [self.shape]
        out = []
        for (n1, n2) in shapes:
            if tier == "quick" and (n1, n2) == (3, 3):
                continue
            for lay in _all_candidate_layouts(n1, n2):
                npairs = sum(len(c) for c in lay)
                if npairs > (3 if tier == "quick" else 5):
                    continue
                for mm in (0, 1, 2):
                    if mm == 2 and npairs < 3:
                        continue
                    out.append((n1, n2, lay, mm))
        return out

    def case_label(self):
        n1, n2, lay, mm = self.case
        return "[%dx%d,maxmatch=%d]" % (n1, n2, mm)

    def inputs(self):
        n1, n2, lay, mm = self.case
        sep = []
        for i, c in enumerate(lay):
            for k in c:
                sep.append([i, k, sym_real("sep_%d_%d" % (i, k))])
        return dict(n1=n1, n2=n2, lay=lay, maxmatch=mm, sep=sep, ml=sym_real("matchlength"))

    def requires(self, n1, n2, lay, maxmatch, sep, ml):
        return S.AND(ml > 0, *[v[2] >= 0 for v in sep])

    def call(self, fn, n1, n2, lay, maxmatch, sep, ml):
        sep = {(int(i), int(k)): v for i, k, v in sep}
        lay = tuple(tuple(int(x) for x in c) for c in lay)
        stub = type("S", (_ChunksStub,), {"candidates": lay})

        def gc(ra1, dec1, ra2, dec2, units=2):
            return sep[(int(round(float(dec1))), int(round(float(dec2))))] * 3600.0
        ra1, dec1 = np.zeros(n1), np.arange(n1, dtype=float)
        ra2, dec2 = np.zeros(n2), np.arange(n2, dtype=float)
        g = getattr(fn, "__globals__", None)
        if g is not None and "__pv" in g:
            g["chunks"], g["gcirc"] = stub, gc
            return fn(ra1, dec1, ra2, dec2, ml, maxmatch=maxmatch)
        from unittest import mock
        import pydl.pydlutils.spheregroup as m
        with mock.patch.object(m, "chunks", stub), mock.patch.object(m, "gcirc", gc):
            return m.spherematch(ra1, dec1, ra2, dec2, ml, maxmatch=maxmatch)

    def native_fn(self):
        import pydl.pydlutils.spheregroup as m
        return m.spherematch

    def ensures(self, result, n1, n2, lay, maxmatch, sep, ml):
        sep = {(int(i), int(k)): v for i, k, v in sep}
        m1, m2, d = result
        got = [(int(a), int(b)) for a, b in zip(m1, m2)]
        close = [p for p in sep if bool(sep[p] < ml)]
        ok_len = len(m1) == len(m2) == len(d)
        own = all(p in sep and bool(S.eq(d[j], sep[p])) for j, p in enumerate(got))
        below = all(p in sep and bool(sep[p] < ml) for p in got)
        ordered = all(bool(d[j] <= d[j + 1]) for j in range(len(d) - 1))
        nodup = len(set(got)) == len(got)
        out = {"lengths_agree": ok_len, "each_pair_carries_its_own_separation": own, "no_pair_at_or_beyond_match_length": below,
               "non_decreasing_separation": ordered, "each_pair_at_most_once": nodup}
        if maxmatch == 0:
            out["every_close_candidate_pair_returned"] = set(got) == set(close)
        else:
            # distance-ordered greedy selection: a pair is left out only if one of its points is already used maxmatch times
            # by pairs that are no farther apart; no point appears more than maxmatch times
            c1 = {i: sum(1 for p in got if p[0] == i) for i in range(n1)}
            c2 = {k: sum(1 for p in got if p[1] == k) for k in range(n2)}
            cap = all(v <= maxmatch for v in c1.values()) and all(v <= maxmatch for v in c2.values())
            just = True
            for p in close:
                if p in got:
                    continue
                u1 = sum(1 for q in got if q[0] == p[0] and bool(sep[q] <= sep[p]))
                u2 = sum(1 for q in got if q[1] == p[1] and bool(sep[q] <= sep[p]))
                if not (u1 >= maxmatch or u2 >= maxmatch):
                    just = False
            out["no_point_used_more_than_maxmatch_times"] = cap
            out["pair_omitted_only_if_a_point_is_saturated_by_closer_or_equal_pairs"] = just
            out["selected_pairs_are_close_candidates"] = set(got) <= set(close)
        return out

    def samples(self, rng):
        for _ in range(150):
            n1, n2 = rng.randint(2, 4), rng.randint(1, 4)
            lay = tuple(tuple(sorted(k for k in range(n2) if rng.random() < 0.6)) for _ in range(n1))
            sep = [[i, k, rng.choice([0.0, 0.5, 0.5, 1.0, 1.5, 2.5]) + rng.choice([0, 0, 0.01])] for i, c in enumerate(lay) for k in c]
            yield dict(n1=n1, n2=n2, lay=lay, maxmatch=rng.choice([0, 1, 1, 2]), sep=sep, ml=rng.choice([1.0, 2.0]))


for _shape in [(2, 1), (2, 2), (2, 3), (3, 2), (3, 3)]:
    _cls = type("SpherematchBookkeeping_%dx%d" % _shape, (_SpherematchBookkeeping,), dict(shape=_shape, name="spherematch_bookkeeping_%dx%d" % _shape, __module__=__name__))
    globals()[_cls.__name__] = register("C04")(_cls)


# spherematch reports gcirc()/3600 as "the true separation": the callee's contract (C18: gcirc is the great-circle distance)
# is part of this property's check
import contracts.c18 as _c18


@register("C04")
class CalleeGcirc(_c18.GcircFormula):
    name = "callee_gcirc_vector_formula"


# ---------------------------------------------------------------------------
# whole-function contract against brute force (spatial hash included): bounded numerical stand-in
# ---------------------------------------------------------------------------
from pyvc.numeric import NumericJob as _NumericJob


def sky_points(rng, n, kind):
    """generated sky positions (degrees): clustered / on the RA seam / near a pole / all sky / lattice aligned with chunk edges"""
    ra, dec = [], []
    if kind == "seam":
        d0 = rng.uniform(-70, 70)
        for _ in range(n):
            ra.append(rng.choice([rng.uniform(0, 0.4), 360.0 - rng.uniform(1e-6, 0.4)]))
            dec.append(d0 + rng.uniform(-0.4, 0.4))
    elif kind == "pole":
        sgn = rng.choice([-1, 1])
        for _ in range(n):
            ra.append(rng.uniform(0, 360))
            dec.append(sgn * (89.9999 - abs(rng.gauss(0, 0.5))))
    elif kind == "allsky":
        for _ in range(n):
            ra.append(rng.uniform(0, 360))
            dec.append(np.degrees(np.arcsin(rng.uniform(-0.999, 0.999))))
    elif kind == "lattice":
        step = rng.choice([0.1, 0.25, 0.5, 1.0])
        r0, d0 = rng.choice([0.0, 359.0, 10.0, 180.0]), rng.choice([-1.0, 0.0, 45.0, 88.0])
        for _ in range(n):
            ra.append((r0 + step * rng.randint(0, 8)) % 360.0)
            dec.append(min(89.5, d0 + step * rng.randint(0, 8)))
    else:
        r0, d0 = rng.uniform(0, 360), rng.uniform(-80, 80)
        for _ in range(n):
            ra.append((r0 + rng.gauss(0, 0.3) / max(0.2, np.cos(np.radians(d0)))) % 360.0)
            dec.append(max(-89.9, min(89.9, d0 + rng.gauss(0, 0.3))))
    return np.array(ra), np.array(dec)


def true_sep(ra1, dec1, ra2, dec2):
    """great-circle separation in degrees from unit vectors (atan2 of |a x b| and a.b)"""
    def unit(r, d):
        r, d = np.radians(r), np.radians(d)
        return np.array([np.cos(d) * np.cos(r), np.cos(d) * np.sin(r), np.sin(d)])
    a, b = unit(ra1, dec1), unit(ra2, dec2)
    return float(np.degrees(np.arctan2(np.linalg.norm(np.cross(a, b)), np.dot(a, b))))


def sep_matrix(ra1, dec1, ra2, dec2):
    """all great-circle separations (degrees) between two lists, from unit vectors: atan2(|a x b|, a.b)"""
    def unit(r, d):
        r, d = np.radians(np.asarray(r, dtype=float)), np.radians(np.asarray(d, dtype=float))
        return np.stack([np.cos(d) * np.cos(r), np.cos(d) * np.sin(r), np.sin(d)], axis=-1)
    a, b = unit(ra1, dec1)[:, None, :], unit(ra2, dec2)[None, :, :]
    cr = np.cross(a, b)
    return np.degrees(np.arctan2(np.sqrt((cr ** 2).sum(axis=-1)), (a * b).sum(axis=-1)))


@register("C04")
class SpherematchBruteForce(_NumericJob):
    name = "spherematch_vs_brute_force"
    target = "pydl.pydlutils.spheregroup:spherematch, chunks.__init__, chunks.assign, chunks.getbounds, chunks.get"
    bound = ("4..40 x 4..40 points: clustered, strips at high |Dec| with partners 0.90..0.999 match lengths away along RA, straddling the RA 0/360 seam, near a pole, all sky, lattice aligned with chunk edges (list 1 optionally padded "
             "with an all-sky lattice so that the chunk rows span the full circle); match lengths 1 arcsec .. 20 deg; chunk sizes from the default to 40 x "
             "the match length; maxmatch 0, 1, 2, 3; pairs within 1e-7 deg of the match length are not generated")
    KINDS = ("unlimited_match_returns_exactly_the_pairs_below_the_match_length_once", "separations_true_and_non_decreasing", "maxmatch_k_is_a_distance_ordered_greedy_selection",
             "independent_of_chunk_size_and_point_order")
    NQ, NT = 150, 1500

    def _cases(self, rng, n):
        rep = 0
        while rep < n:
            kind = rng.choice(["cluster", "seam", "seam", "pole", "allsky", "lattice", "strip", "strip"])
            n1, n2 = rng.randint(4, 40), rng.randint(4, 40)
            if kind == "strip":
                # a strip along RA at high |Dec| (either hemisphere) many chunks long; every list-2 point sits 0.90..0.999 match lengths from a
                # list-1 point, mostly along RA: pairs straddling RA chunk edges right at the margin the hash must honour
                length = rng.choice([0.05, 0.3, 1.0])
                d0 = rng.choice([-1, 1]) * rng.uniform(40.0, 82.0)
                r0 = rng.uniform(0, 360)
                n1 = n2 = rng.randint(20, 40)
                ra1 = (r0 + np.array([rng.uniform(0, 12 * length / np.cos(np.radians(d0))) for _ in range(n1)])) % 360.0
                dec1 = d0 + np.array([rng.uniform(-1.5, 1.5) * length for _ in range(n1)])
                ra2, dec2 = [], []
                for k in range(n2):
                    dd = rng.uniform(0.90, 0.999) * length
                    th = rng.choice([0.0, np.pi]) + rng.uniform(-0.3, 0.3)
                    dec2.append(dec1[k] + dd * np.sin(th))
                    ra2.append((ra1[k] + dd * np.cos(th) / np.cos(np.radians(dec1[k]))) % 360.0)
                ra2, dec2 = np.array(ra2), np.array(dec2)
            else:
                ra1, dec1 = sky_points(rng, n1, kind)
            if kind == "strip":
                pass
            elif kind == "allsky":
                ra2, dec2 = sky_points(rng, n2, kind)
                length = rng.choice([5.0, 10.0, 20.0, 2.0])
            else:
                # second list: perturbed copies of first-list points plus unrelated ones
                length = rng.choice([1 / 3600.0, 10 / 3600.0, 0.01, 0.05, 0.2, 0.5])
                ra2, dec2 = [], []
                for _ in range(n2):
                    if rng.random() < 0.7:
                        k = rng.randrange(n1)
                        dd = rng.uniform(0, 2.0) * length
                        th = rng.uniform(0, 2 * np.pi)
                        dec2.append(max(-89.99, min(89.99, dec1[k] + dd * np.sin(th))))
                        ra2.append((ra1[k] + dd * np.cos(th) / max(1e-3, np.cos(np.radians(dec1[k])))) % 360.0)
                    else:
                        r, d = sky_points(rng, 1, kind)
                        ra2.append(r[0])
                        dec2.append(d[0])
                ra2, dec2 = np.array(ra2), np.array(dec2)
            if rng.random() < 0.4:
                gra, gdec = np.meshgrid(np.arange(0.0, 360.0, 30.0), np.arange(-60.0, 61.0, 30.0))
                ra1, dec1 = np.concatenate([ra1, gra.ravel()]), np.concatenate([dec1, gdec.ravel()])
            sep = np.array([[true_sep(ra1[i], dec1[i], ra2[k], dec2[k]) for k in range(ra2.size)] for i in range(ra1.size)])
            if (np.abs(sep - length) < 1e-7).any():
                continue
            srt = np.sort(sep[sep < length])
            if srt.size > 1 and (np.diff(srt) < 1e-9).any():       # ties would make the greedy selection ambiguous
                continue
            chunksize = rng.choice([None, None, length * rng.uniform(1.0, 40.0), max(4 * length, 0.1) * rng.uniform(1, 5)])
            # keep the chunk table small (the real class allocates one Python list per chunk): at most ~2e5 chunks
            eff = max(4 * length, 0.1) if chunksize is None else max(chunksize, 4 * length)
            span_d = dec1.max() - dec1.min()
            span_r = 360.0 if (kind in ("allsky", "pole", "seam") or ra1.size > n1) else (ra1.max() - ra1.min())
            if kind == "seam" and ra1.size == n1:
                span_r = 1.0
            while (span_d / eff + 3) * (span_r / eff + 3) > 2e5:
                eff *= 1.5
                chunksize = eff
            yield dict(ra1=ra1, dec1=dec1, ra2=ra2, dec2=dec2, length=length, chunksize=chunksize, sep=sep, k=rng.choice([1, 1, 2, 3]),
                       perm=[rng.sample(range(ra1.size), ra1.size), rng.sample(range(ra2.size), ra2.size)],
                       inp=dict(rep=rep, sky=kind, n1=int(ra1.size), n2=int(ra2.size), matchlength=length, chunksize=chunksize))
            rep += 1

    def _check(self, c):
        from pydl.pydlutils.spheregroup import spherematch
        ra1, dec1, ra2, dec2, length, sep = c["ra1"], c["dec1"], c["ra2"], c["dec2"], c["length"], c["sep"]
        kw = {} if c["chunksize"] is None else dict(chunksize=c["chunksize"])
        bad = []
        expected = {(i, k): sep[i, k] for i in range(ra1.size) for k in range(ra2.size) if sep[i, k] < length}

        def run(r1, d1, r2, d2, maxmatch, **kw2):
            try:
                m1, m2, d12 = spherematch(r1, d1, r2, d2, length, maxmatch=maxmatch, **kw2)
            except Exception as e:
                from pydl.pydlutils import PydlutilsException
                if isinstance(e, PydlutilsException) and not expected and "No matches" in str(e):
                    return [], np.zeros(0)
                raise
            return list(zip(np.asarray(m1).tolist(), np.asarray(m2).tolist())), np.asarray(d12, dtype=float)
        got, d12 = run(ra1, dec1, ra2, dec2, 0, **kw)
        if len(got) != len(set(got)) or set(got) != set(expected):
            miss, spur = sorted(set(expected) - set(got))[:3], sorted(set(got) - set(expected))[:3]
            bad.append(("unlimited_match_returns_exactly_the_pairs_below_the_match_length_once",
                        "missing %s spurious %s repeated %d" % ([(p, round(ra1[p[0]], 5), round(ra2[p[1]], 5)) for p in miss], spur, len(got) - len(set(got)))))
        else:
            if (np.diff(d12) < 0).any() or any(abs(dd - expected[p]) > 1e-6 * max(length, expected[p]) + 1e-9 for p, dd in zip(got, d12)):
                bad.append(("separations_true_and_non_decreasing", "a reported separation differs from the true one or the order decreases"))
        # greedy selection with maxmatch = k
        k = c["k"]
        gk, dk = run(ra1, dec1, ra2, dec2, k, **kw)
        use1, use2, sel = {}, {}, []
        for p in sorted(expected, key=lambda q: expected[q]):
            if use1.get(p[0], 0) < k and use2.get(p[1], 0) < k:
                sel.append(p)
                use1[p[0]] = use1.get(p[0], 0) + 1
                use2[p[1]] = use2.get(p[1], 0) + 1
        if sorted(gk) != sorted(sel) or (np.diff(dk) < 0).any():
            bad.append(("maxmatch_k_is_a_distance_ordered_greedy_selection", "maxmatch=%d: got %d pairs, the greedy selection has %d; first differences %s" %
                        (k, len(gk), len(sel), sorted(set(gk) ^ set(sel))[:4])))
        # other chunk size, permuted input order
        p1, p2 = c["perm"]
        alt = dict(chunksize=max(4 * length, 0.1) * 2.7)
        g2, _ = run(ra1[p1], dec1[p1], ra2[p2], dec2[p2], 0, **alt)
        g2 = {(p1[i], p2[j]) for i, j in g2}
        if g2 != set(expected):
            bad.append(("independent_of_chunk_size_and_point_order", "permuted input with chunksize %g: missing %s spurious %s" %
                        (alt["chunksize"], sorted(set(expected) - g2)[:3], sorted(g2 - set(expected))[:3])))
        return bad
