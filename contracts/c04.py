"""C04 -- spherematch returns exactly the pairs closer than the match length."""
import itertools
import types
import numpy as np
import z3
from pyvc.harness import FunctionContract, register, JobResult
from pyvc.proxies import SInt, SReal, SBool, sym_real, sym_bool
from pyvc.engine import eng
from pyvc import arrays as A
from pyvc import spec as S

EVIDENCE_LEVEL = "other"
EXPLANATION = ("Bounded stand-in only: the real spherematch (pair loop, sort, maxmatch bookkeeping) is executed under the forking driver with "
               "symbolic separations for every candidate-cell layout of <=3 x <=3 points: no pair at or beyond the match length, each pair with "
               "its own separation, once, in non-decreasing order; maxmatch=k is the distance-ordered greedy selection. The spatial hash "
               "(chunks.assign/get: which candidates a cell holds) is replaced by an arbitrary candidate relation.")
UNDECIDED = ["completeness of the spatial hash: every pair closer than the match length is among the candidates of its cell (spherical geometry in "
             "floats: RA margins scaled by cos(dec), seam rotation, polar caps) -- chunks.assign / getbounds / get are not under contract",
             "all sizes: the bookkeeping loops are decided only up to the stated bounds"]


class _ChunksStub:
    """chunks stand-in: get() puts first-list point i in cell i; chunkList[0][i] = the candidate second-list points for i"""
    candidates = None

    def __init__(self, ra, dec, chunksize):
        self.raOffset = 0.0
        self.chunkList = [[list(c) for c in type(self).candidates]]
        self._next = 0

    def assign(self, ra, dec, margin):
        pass

    def get(self, ra, dec):
        i = int(round(float(dec)))       # the stub encodes the point index in dec
        return (i, 0)


def _all_candidate_layouts(n1, n2):
    subsets = [s for k in range(0, n2 + 1) for s in itertools.combinations(range(n2), k)]
    return itertools.product(subsets, repeat=n1)


class _SpherematchBookkeeping(FunctionContract):
    name = "spherematch_bookkeeping"
    shape = (2, 2)
    target = "pydl.pydlutils.spheregroup:spherematch"
    level = "B"
    bound = "2..3 first-list points x 1..3 second-list points, every assignment of candidate sets to cells with <=3 candidate pairs (quick; <=5 thorough, incl. 3x3), maxmatch 0..2, all real separations (symbolic)"
    max_paths = 200000
    nmode = True
    budget_s = 120
    job_budget_s = 500
    assumptions = ["chunks (spatial hash) replaced by an arbitrary candidate relation without duplicate entries per cell", "gcirc replaced by an arbitrary "
                   "non-negative separation per pair (its contract, C18)", "A1 floats as reals; argsort on distinct or tied distances explored by forking"]

    def cases(self, tier):
        shapes = [self.shape]
        out = []
        for (n1, n2) in shapes:
            if tier == "quick" and (n1, n2) == (3, 3):
                continue
            for lay in _all_candidate_layouts(n1, n2):
                npairs = sum(len(c) for c in lay)
                if npairs > (3 if tier == "quick" else 5):
                    continue
                for mm in (0, 1, 2):
                    if mm == 2 and npairs < 3:
                        continue
                    out.append((n1, n2, lay, mm))
        return out

    def case_label(self):
        n1, n2, lay, mm = self.case
        return "[%dx%d,maxmatch=%d]" % (n1, n2, mm)

    def inputs(self):
        n1, n2, lay, mm = self.case
        sep = []
        for i, c in enumerate(lay):
            for k in c:
                sep.append([i, k, sym_real("sep_%d_%d" % (i, k))])
        return dict(n1=n1, n2=n2, lay=lay, maxmatch=mm, sep=sep, ml=sym_real("matchlength"))

    def requires(self, n1, n2, lay, maxmatch, sep, ml):
        return S.AND(ml > 0, *[v[2] >= 0 for v in sep])

    def call(self, fn, n1, n2, lay, maxmatch, sep, ml):
        sep = {(int(i), int(k)): v for i, k, v in sep}
        lay = tuple(tuple(int(x) for x in c) for c in lay)
        stub = type("S", (_ChunksStub,), {"candidates": lay})

        def gc(ra1, dec1, ra2, dec2, units=2):
            return sep[(int(round(float(dec1))), int(round(float(dec2))))] * 3600.0
        ra1, dec1 = np.zeros(n1), np.arange(n1, dtype=float)
        ra2, dec2 = np.zeros(n2), np.arange(n2, dtype=float)
        g = getattr(fn, "__globals__", None)
        if g is not None and "__pv" in g:
            g["chunks"], g["gcirc"] = stub, gc
            return fn(ra1, dec1, ra2, dec2, ml, maxmatch=maxmatch)
        from unittest import mock
        import pydl.pydlutils.spheregroup as m
        with mock.patch.object(m, "chunks", stub), mock.patch.object(m, "gcirc", gc):
            return m.spherematch(ra1, dec1, ra2, dec2, ml, maxmatch=maxmatch)

    def native_fn(self):
        import pydl.pydlutils.spheregroup as m
        return m.spherematch

    def ensures(self, result, n1, n2, lay, maxmatch, sep, ml):
        sep = {(int(i), int(k)): v for i, k, v in sep}
        m1, m2, d = result
        got = [(int(a), int(b)) for a, b in zip(m1, m2)]
        close = [p for p in sep if bool(sep[p] < ml)]
        ok_len = len(m1) == len(m2) == len(d)
        own = all(p in sep and bool(S.eq(d[j], sep[p])) for j, p in enumerate(got))
        below = all(p in sep and bool(sep[p] < ml) for p in got)
        ordered = all(bool(d[j] <= d[j + 1]) for j in range(len(d) - 1))
        nodup = len(set(got)) == len(got)
        out = {"lengths_agree": ok_len, "each_pair_carries_its_own_separation": own, "no_pair_at_or_beyond_match_length": below,
               "non_decreasing_separation": ordered, "each_pair_at_most_once": nodup}
        if maxmatch == 0:
            out["every_close_candidate_pair_returned"] = set(got) == set(close)
        else:
            # distance-ordered greedy selection: a pair is left out only if one of its points is already used maxmatch times
            # by pairs that are no farther apart; no point appears more than maxmatch times
            c1 = {i: sum(1 for p in got if p[0] == i) for i in range(n1)}
            c2 = {k: sum(1 for p in got if p[1] == k) for k in range(n2)}
            cap = all(v <= maxmatch for v in c1.values()) and all(v <= maxmatch for v in c2.values())
            just = True
            for p in close:
                if p in got:
                    continue
                u1 = sum(1 for q in got if q[0] == p[0] and bool(sep[q] <= sep[p]))
                u2 = sum(1 for q in got if q[1] == p[1] and bool(sep[q] <= sep[p]))
                if not (u1 >= maxmatch or u2 >= maxmatch):
                    just = False
            out["no_point_used_more_than_maxmatch_times"] = cap
            out["pair_omitted_only_if_a_point_is_saturated_by_closer_or_equal_pairs"] = just
            out["selected_pairs_are_close_candidates"] = set(got) <= set(close)
        return out

    def samples(self, rng):
        for _ in range(150):
            n1, n2 = rng.randint(2, 4), rng.randint(1, 4)
            lay = tuple(tuple(sorted(k for k in range(n2) if rng.random() < 0.6)) for _ in range(n1))
            sep = [[i, k, rng.choice([0.0, 0.5, 0.5, 1.0, 1.5, 2.5]) + rng.choice([0, 0, 0.01])] for i, c in enumerate(lay) for k in c]
            yield dict(n1=n1, n2=n2, lay=lay, maxmatch=rng.choice([0, 1, 1, 2]), sep=sep, ml=rng.choice([1.0, 2.0]))


for _shape in [(2, 1), (2, 2), (2, 3), (3, 2), (3, 3)]:
    _cls = type("SpherematchBookkeeping_%dx%d" % _shape, (_SpherematchBookkeeping,), dict(shape=_shape, name="spherematch_bookkeeping_%dx%d" % _shape, __module__=__name__))
    globals()[_cls.__name__] = register("C04")(_cls)


# spherematch reports gcirc()/3600 as "the true separation": the callee's contract (C18: gcirc is the great-circle distance)
# is part of this property's check
import contracts.c18 as _c18


@register("C04")
class CalleeGcirc(_c18.GcircFormula):
    name = "callee_gcirc_vector_formula"
