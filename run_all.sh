#!/bin/bash
# runs every claimed check (quick tier unless $1 is given) and prints one line each
cd "$(dirname "$0")"
tier=${1:-quick}
for p in $(.venv/bin/python -c "import json; print(' '.join(c['property_id'] for c in json.load(open('MANIFEST.json'))['checks']))" 2>/dev/null); do
  ./check $p --tier $tier 2>&1 | tail -1
done
